#!/usr/bin/env bash
# usage: tools/run_all.sh <quick|thorough> [seed] [ids...]  — runs the registered checks one after another, prints one line each
cd "$(dirname "$0")/.." || exit 2
TIER="${1:-quick}"; SEED="${2:-0}"; shift; shift
IDS="${*:-C01 C02 C03 C04 C05 C06 C07 C08 C09 C10 C11 C12 C13 C14 C15 C16 C17 C18 C19 C20}"
for ID in $IDS; do
  T0=$(date +%s)
  OUT=$(VERIF_SEED="$SEED" ./check "$ID" "$TIER" 2>&1); CODE=$?
  T1=$(date +%s)
  echo "$ID $TIER seed=$SEED exit=$CODE $((T1-T0))s $(echo "$OUT" | grep -c '^VIOLATION') violations $(echo "$OUT" | grep -c '^KNOWN-FINDING') known | $(echo "$OUT" | grep '^hv: C.. tier' | tail -1)"
  [ "$CODE" != 0 ] && echo "$OUT" | grep -v '^  case:' | tail -15
done
exit 0
