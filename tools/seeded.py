#!/usr/bin/env python3
"""Run a check against a seeded change kept under /verif/seeded/<name>/patch.diff.
usage: seeded.py <name> [property-id ...] [--tier quick|thorough] [--import /tmp/seed_dir]
 <name> is the directory under seeded/ (normally the property id the change was written against).
 The patch is applied to /repo (git apply), the checks are run with their output redirected to a scratch root,
 and /repo is restored (git checkout -- .) whatever happens. Results are appended to seeded/<name>/result.json."""
import json, os, subprocess, sys, shutil, time
ROOT = os.path.dirname(os.path.dirname(os.path.abspath(__file__)))
OUT = "/tmp/hv_seed_root"
def main():
    args = sys.argv[1:]
    tier = "quick"; imp = None; ids = []; name = None; norun = False
    i = 0
    while i < len(args):
        if args[i] == "--tier": tier = args[i+1]; i += 2
        elif args[i] == "--import": imp = args[i+1]; i += 2
        elif args[i] == "--no-run": norun = True; i += 1
        elif name is None: name = args[i]; i += 1
        else: ids.append(args[i]); i += 1
    d = os.path.join(ROOT, "seeded", name)
    if imp:
        os.makedirs(d, exist_ok=True)
        shutil.copy(os.path.join(imp, "patch.diff"), d)
        if os.path.exists(os.path.join(imp, "meta.json")): shutil.copy(os.path.join(imp, "meta.json"), d)
        if os.path.isdir(os.path.join(imp, "demo")):
            shutil.rmtree(os.path.join(d, "demo"), ignore_errors=True); shutil.copytree(os.path.join(imp, "demo"), os.path.join(d, "demo"))
    if norun: return
    if not ids: ids = [name[:3]]
    if subprocess.run(["git","-C","/repo","status","--porcelain","--untracked-files=no"],capture_output=True,text=True).stdout.strip():
        print("refusing: /repo has uncommitted changes"); sys.exit(2)
    r = subprocess.run(["git","-C","/repo","apply",os.path.join(d,"patch.diff")],capture_output=True,text=True)
    if r.returncode != 0: print("patch does not apply:", r.stderr); sys.exit(2)
    results = []
    try:
        for pid in ids:
            subprocess.run(["rm","-rf",OUT]); os.makedirs(OUT)
            subprocess.run(["cp", os.path.join(ROOT,"known_findings.json"), OUT]); subprocess.run(["cp","-r", os.path.join(ROOT,"replays"), OUT])
            t0 = time.time()
            r = subprocess.run([os.path.join(ROOT,"check"), pid, tier], capture_output=True, text=True, env=dict(os.environ, HV_OUT_ROOT=OUT))
            viol = [l for l in r.stdout.splitlines() if l.startswith("VIOLATION")]
            first = [l for l in r.stderr.splitlines() if l.startswith("  [")][:1]
            res = {"check": pid, "tier": tier, "exit": r.returncode, "violations": len(viol), "first": (first[0][:400] if first else ""), "seconds": round(time.time()-t0)}
            print(f"[{name}] {pid} {tier}: exit={r.returncode} violations={len(viol)} {res['seconds']}s {res['first'][:240]}")
            if r.returncode == 2: print(r.stderr[-600:])
            results.append(res)
    finally:
        subprocess.run(["git","-C","/repo","checkout","--","."], check=True)
    p = os.path.join(d, "result.json")
    old = json.load(open(p)) if os.path.exists(p) else []
    old = [o for o in old if not any(o["check"] == n["check"] and o["tier"] == n["tier"] for n in results)] + results
    json.dump(old, open(p,"w"), indent=1)
main()
