#!/usr/bin/env python3
"""Generates /verif/MANIFEST.json from the table below and validates it against the schema."""
import json, os, subprocess, sys
ROOT = os.path.dirname(os.path.dirname(os.path.abspath(__file__)))

CLAIMED = {
 "C17": ("exploration", "schedule exploration with a harness-owned serializing scheduler over library yield points (hook H3): exhaustive DFS over all interleavings for pairs of calls, property-based generated schedules for 2..4 threads, plus free-running parallel stress; oracle: per-thread results equal the sequential run, cache-prefix / monotonicity invariants at every scheduling point, no blocked run",
         "Generated-schedule search: threads run decryptions (key powers 1..4), noise budgets, relinearization-key generation for 1..4 powers, Galois-key generation and Galois automorphisms on one shared Decryptor / KeyGenerator / Evaluator. The library yields to the harness scheduler at every lock-free point of the two key-power caches (before the read phase, between copy and compute, before the write phase, before the final read) and around the check-then-generate of the permutation tables, so a schedule is a choice sequence that is enumerated exhaustively (every pair of calls on the same cache, three decrypting threads in the thorough tier), generated and shrunk by proptest (2..4 threads, 1..2 calls each), and replayed exactly. Per-thread deterministic entropy makes even key generation byte-comparable with the same calls run alone on fresh objects. At every scheduling point both key-power caches must be a prefix s..s^k of the true powers with k non-decreasing and every filled permutation table complete; a run that blocks is a deadlock. A free-running sub-check executes the same workloads truly in parallel.",
         "Trusted: yield points sit outside every lock scope; execution between yield points is serialized, so races inside a locked region are reachable only by the free-running sub-check (which cannot prove their absence).", "DESIGN.md §6 C17"),
 "C18": ("exploration", "model-based property testing (proptest) over protocol sessions with generated message-delivery schedules and withheld messages + exhaustive enumeration of all delivery orders for 2 and 3 parties; oracles: cross-party equality, key relations under the harness-summed secret key, ordinary decryptor",
         "Generated-history search: sessions of 1..4 protocol runs (collective public key, two-round relinearization keys with per-party interleaving of the rounds, secret-key reveal, collective decryption, key switch, public-key switch, cipher->shares, shares->cipher and their composition) among 2..6 parties sharing one tape, over BFV/BGV/CKKS contexts with 2..4 primes, inputs at every level and in either representation. The n(n-1) messages of every round are delivered in a generated order (all orders exhaustively for n=2,3), optionally with one message withheld. Every party's output must be identical; the collective keys must satisfy k0 + k1*s [- P*s^2] = bounded error for the secret-key sum the harness adds up itself, and must work with an ordinary encryptor / evaluator / decryptor; plaintexts must survive whenever the worst-case noise model says they must; shares must add up to the slots; exactly the party with an incomplete inbox must refuse.",
         "Trusted: noise model DESIGN.md §4 extended with secret norm n and multiparty key error 2nB(Nn+1); shares->cipher is observed at party 0 (the aggregating party of the documented usage).", "DESIGN.md §6 C18"),
 "C20": ("exploration", "property-based testing (proptest) over generated shapes + exhaustive small shapes, differential against u128 / f64 reference matrix products and cross-correlations",
         "Generated-input search: nine pipelines (coefficient-packing matmul forward / reverse / CKKS with three objectives, output packing, bias re-encoding and selected-term transport; BOLT cp, cc_cr, cc_dc; conv2d forward / reverse / CKKS) on shapes from 1 up to several times the slot count, so that splits along every dimension (image height included) and partial last blocks occur, with boundary-biased values; every (m,r,n) <= 3 (thorough <= 6, three degrees) exhaustively; decode(encode(outputs)) round trips; the RNS-plaintext wrapper against big-integer arithmetic modulo the product of its plain moduli. Two genuine defects were found and fixed (conv2d weight buffer; data-dependent panic in decrypt_outputs_bfv when trailing outputs are zero).",
         "Trusted: u128 / f64 reference implementations; fixed generous parameter family with a per-case noise guard.", "DESIGN.md §6 C20"),
 "C19": ("exploration", "exhaustive enumeration (all indices, trace depths, pack counts at N<=32/64) + property-based testing against a coefficient-placement oracle on decrypted vectors",
         "Generated-input search: for N in {4,..,32} (thorough 64) in the three schemes every coefficient index through extract+assemble in either input representation, every trace parameter and every pack count 1..N, plus random parameter sets up to N=64 (thorough 1024) with random term selections and seed-compressed automorphism keys. Decrypted coefficient vectors (exact modulo t in BFV/BGV; exact integers via own CRT within worst-case noise in CKKS) must show m_i in the constant coefficient, (N/2^l) m_j exactly on multiples of N/2^l and zero elsewhere, and the k packed values at stride N/2^ceil(log2 k).",
         "Trusted: noise model DESIGN.md §4 with generous factors for merge/trace rounds; own CRT.", "DESIGN.md §6 C19"),
 "C16": ("exploration", "property-based testing (proptest) with metamorphic stream oracles (chunking / call-sequence independence), history-based freshness invariants and deterministic-seeded distribution tests",
         "Generated-input search: the seeded generator's output is compared across chunkings that cross several buffer refills at unaligned offsets, across repeated identical call sequences, across one-bit seed changes and for repetition over 1 MiB per seed kind; samplers are checked for RNS-consistent small signed values, |e| <= 21, uniform range and (on 2^20 draws per seed) for their distributions at p = 1e-9 with confirmation; histories of up to 50 encryptions and key generations (with the entropy hook removed) must never repeat a mask polynomial or stored seed, while identical explicit generator state must reproduce the mask, and seeded objects must expand identically twice and in an independently built context.",
         "Trusted: blake3 crate only for the informational cross-check; freshness is asserted for N >= 16 (below that the public-key mask space 3^N admits honest birthday collisions).", "DESIGN.md §6 C16"),
 "C14": ("exploration", "property-based round-trip testing (proptest) over a zoo of 29 serializable object kinds with field-by-field equality, exact size / framing and cross-context oracles",
         "Generated-input search: objects of every serializable type are built through the public API in varied states (seeded or expanded, sizes 2..3, lower level, either representation, empty to 3x3x3 containers, random / empty / full / unordered term subsets) under parameter sets whose primes occupy 1..8 bytes. The announced size must equal the bytes written and the bytes consumed when the object sits between neighbours in one stream; the restored object must equal the original (its seed-expanded form; for the selected-terms format the first polynomial restricted to the chosen coefficients) in the same context and in one rebuilt from the serialized parameters; later operations must be bit-identical.",
         "Trusted: equality over all public fields and data words; expected term-restricted form computed with the library's NTT (C09).", "DESIGN.md §6 C14"),
 "C15": ("fault_enumeration", "fault injection: generated faulty writers (short writes, hard failures, full-buffer Ok(0), Interrupted) and exhaustive truncation offsets over every serializable type, with an error-or-complete oracle",
         "Fault enumeration: for every object kind of C14 each generated writer (cyclic per-call acceptance limits 1..8, optional failure or buffer-full point, optional EINTR) must either receive the complete reference encoding with the full count returned, or the call must return an error; every strict prefix of every encoding (all offsets up to 4 KiB, boundaries plus samples above) must deserialize to an error, never to an object and never panic. The pinned defect (Write::write with ignored count, read_exact unwrap) was found this way and fixed.",
         "Trusted: only the fault classes named in the statement; writers obey the std::io::Write contract.", "DESIGN.md §6 C15"),
 "C13": ("exploration", "property-based testing (proptest) + exhaustive small-parameter universe against an independently coded validity predicate, big-integer definitions of the precomputed constants and cross-context identifier agreement",
         "Generated-input search over every kind of parameter object the builder lets through (invalid schemes and degrees, composite / duplicate / even / oversized moduli, inadmissible plain moduli, standard security levels, both flags) plus the full universe N in {2,4,8} x moduli <= 24 (thorough 64). HeContext::new must never panic; parameters_set must imply the mathematical preconditions on every level; rejected sets must carry a specific error; accepted chains are checked for link structure, prefix moduli, constants (Q, Q div t, Q mod t, thresholds, increments) against big integers, qualifier flags, identifier equality across independently built contexts and collision freedom; the moduli generators are checked with a deterministic primality test. One known finding (randomized acceptance for composite moduli = 1 mod 2N) is reported as KNOWN-FINDING and excluded by construction.",
         "Trusted: refmath (deterministic Miller-Rabin), BigU. Only the soundness direction is asserted for arbitrary objects.", "DESIGN.md §6 C13"),
 "C12": ("exploration", "property-based testing (proptest): CKKS plaintexts decoded by an independent route (per-prime inverse NTT + own CRT) and compared with exact roundings / a naive canonical embedding; refusal oracle",
         "Generated-input search over chains of 1..19 primes, every level, five entry points, scales with non-trivial mantissas from 2^0 to 2^(log Q - 2) so that scaled magnitudes land below 2^64, in 2^64..2^128 and above 2^128, both signs, imaginary parts, integers above and below each prime, lists of length 0..N. The plaintext is brought back to one centered integer vector by the oracle's own CRT and compared exactly (integer, single-real and coefficient-list paths) or within 1/2 + double-precision error of a compensated naive inverse embedding (vector paths); decoding must return the input within the analysed tolerance; inadmissible scales and oversized inputs must be refused. Two pinned defects were found this way and fixed.",
         "Trusted: BigU/BigI, f64 reference embedding with Kahan summation; inputs within 3 bits of the modulus size are not judged (either outcome allowed).", "DESIGN.md §6 C12"),
 "C04": ("exploration", "exhaustive enumeration of Galois elements / rotation steps at small N + property-based testing, against index-arithmetic automorphism and slot-permutation oracles",
         "Generated-input search: every odd element g<2N and every step (direct key and NAF composition from the default key set) at N in {4,8,16,32} for the three schemes at first and last level, plus random parameter sets, key-set variants (from elements, from steps, default, seed-compressed then expanded), column swap / conjugation, secret-key switching and plaintext automorphisms in both representations. The decrypted polynomial must be m(X^g) (exact in BFV/BGV, integer coefficients within worst-case noise in CKKS) and decoded slots must be the documented permutation / conjugation.",
         "Trusted: refmath index arithmetic, own CRT, noise model DESIGN.md §4.", "DESIGN.md §6 C04"),
 "C11": ("exploration", "property-based testing (proptest) + exhaustive unit-vector / rotation-step enumeration against naive evaluation at the roots psi^(+-3^i)",
         "Generated-input search: the encoded polynomial of every unit vector (exhaustive N<=128, thorough 512, three plain-modulus sizes) and of random / extreme / short vectors must evaluate to the slot values at the powers +-3^i of the independently computed minimal primitive 2N-th root modulo t; decode/encode are mutually inverse; sums and naive negacyclic products decode to slot-wise sums and products; the automorphism the library associates with every rotation step (all steps for N<=64) must rotate both rows left by that step and step 0 must swap the rows; coefficient encoding reduces modulo t.",
         "Trusted: u128 arithmetic, refmath minimal-root search, naive convolution.", "DESIGN.md §6 C11"),
 "C06": ("exploration", "property-based differential testing (proptest) of the three API forms of 26 entry points on generated operand states + single-field corruption (fault) injection with a refusal oracle",
         "Generated-input search: operand states (sizes, levels, representations, three schemes) are reached by random build sequences; each of 26 evaluator entry points is executed through its in-place, destination and value-returning forms on identical operands. All forms must agree word for word (or all refuse), read-only operands must be unchanged, results must be valid and accepted by a follow-up operation; then one field of one operand is corrupted (15 ciphertext, 6 plaintext, 2 key corruptions) and every form must refuse. Two genuine validation gaps were found and fixed.",
         "Trusted: ValCheck::is_valid_for as the definition of validity for the follow-up check; any panic is a refusal.", "DESIGN.md §6 C06"),
 "C05": ("exploration", "exhaustive enumeration of (source, target, API form) over small chains + property-based testing, every call under a termination deadline, against shadow message / factor / scale oracles",
         "Generated-input search: all (source level, target) pairs of chains with 1..4 (thorough 6) data levels, including key-level and unknown targets, through all 18 entry points of the three schemes, plus random parameter sets and sizes 2..4. Every call runs on a worker thread under a 20 s deadline because termination is part of the statement (the pinned rescale_to defect was found this way and fixed). Level, BGV correction factor, CKKS scale (bit-exact / 4 ulp), message and NTT-plaintext equality are checked; requests that must be refused must panic.",
         "Trusted: noise model DESIGN.md §4; the deadline (>= 10^5 x the normal duration) is the only wall-clock oracle in the framework; rescale_to(current level) on the last level may either refuse or return the input (both accepted).", "DESIGN.md §6 C05"),
 "C03": ("exploration", "model-based property testing (proptest): generated CKKS programs next to a complex-vector shadow with a worst-case error bound; bit-exact scale oracle; injected ill-typed steps must be refused",
         "Generated-history search over CKKS programs (multiply, square, plaintext operations, relinearize, rescale, mod switch) on chains of 2..6 primes of mixed sizes with complex inputs of either sign. Every result's recorded scale is compared bit-for-bit with the single IEEE product or quotient the operation implies, its decoding with the shadow within an analysed worst-case bound (asserted only when scaled message plus error fits Q/2 with a 2^6 margin), and injected steps that mix levels, mismatched scales or overflowing scales must panic (the library's refusal convention) rather than return.",
         "Trusted: error model DESIGN.md §4, shadow::ckks_tolerance; the bound is worst-case, so relative errors below about N^2 2^-scale-bits pass (stated limit).", "DESIGN.md §6 C03"),
 "C07": ("exploration", "property-based testing (proptest): differential check of invariant_noise_budget against an exact big-integer evaluation of the definition on program-generated ciphertexts",
         "Generated-input search: every fresh and every computed ciphertext of multiplication-heavy generated programs (budgets driven down to 0; 1..6 primes so every word count of the multi-precision norm/compose code runs; sizes up to 16; all levels) is measured twice - by the library and by an oracle that recomputes the phase from the secret key with naive per-prime convolutions, its own CRT and an exact centered infinity norm. Equality is exact, so any disagreement is a violation. Fresh budgets are compared with the deterministic lower bound, negate/add/sub/add_many with the stated relations, and decrypt with the exactly rounded phase outside a 2^-30 tie margin.",
         "Trusted: BigU, refmath; the secret key is brought to coefficient form with the library's inverse NTT (checked to be ternary; NTT correctness is C09).", "DESIGN.md §6 C07"),
 "C02": ("exploration", "model-based property testing (proptest): generated operation programs executed next to a shadow plaintext-ring model, gated by a worst-case noise bound",
         "Generated-history search: programs of up to 12 (thorough 30) evaluator operations over a pool of fresh BFV/BGV ciphertexts; operands are chosen among those the shadow state says are well-typed, so unequal sizes (2..16), both representations, lower levels and unequal BGV correction factors arise by construction. After every step the result's metadata must match the shadow and, when the deterministic noise bound allows, its decryption must equal the program evaluated in Z_t[X]/(X^N+1) by a naive reference. A measured-noise channel reports (never as a violation) if the bound model is ever too tight.",
         "Trusted: shadow ring arithmetic (naive convolution), noise model DESIGN.md §4 with 2^6 margin; multiply_many is outside the statement's operation list and excluded.", "DESIGN.md §6 C02"),
 "C01": ("exploration", "property-based testing (proptest): decrypt(encrypt(m)) round trip over generated parameter sets, entry points, levels and plaintexts, gated by a deterministic worst-case noise bound",
         "Generated-input search over parameter sets (3 schemes, N=2..64 and a N=1024..8192 sub-check, 1..6 primes of 2..60 bits in any order, six plain-modulus kinds, special-prime flag), 13 encryption entry points (pk, sk, seed-compressed + expanded, explicit generators, zero encryptions at every level) and boundary-biased plaintexts. BFV/BGV: exact equality with the input polynomial; CKKS: within an analysed worst-case tolerance. Equality is asserted only when the deterministic fresh-noise bound (2^6 margin) is below Q/2, so no alarm can come from unlucky noise; metadata and validity of every ciphertext are checked unconditionally.",
         "Trusted: noise model of DESIGN.md §4 (ternary secret/mask, |e|<=21), CKKS tolerance incl. the decoder's word-wise negative-coefficient conversion; hook H2 only makes library randomness replayable.", "DESIGN.md §6 C01"),
 # id: (category, technique, level text, level note, design ref)
 "C08": ("exploration", "property-based testing (proptest) against u128/bigint reference + exhaustive enumeration of all moduli < 2^7",
         "Generated-input search: every public word-level modular primitive and multi-word helper is compared with native u128 / in-house big-integer arithmetic on boundary-biased random operands (quick: 0.8M cases) and exhaustively for all moduli below 128 with all operand pairs. Exact-value oracle, so any disagreement is a violation; this is the property PBT decides best.",
         "Trusted: Rust u128 arithmetic, the self-tested BigU oracle, documented operand domains re-derived from doc comments and callers.", "DESIGN.md §6 C08"),
 "C09": ("exploration", "property-based testing (proptest) against naive evaluation/convolution + exhaustive unit-vector enumeration",
         "Generated-input search: the forward transform of every unit vector X^j (exhaustive, N up to 2048 quick / 8192 thorough, four prime sizes incl. 61-bit) must equal the powers of the independently computed minimal primitive 2N-th root in bit-reversed order; random vectors are checked by Horner evaluation, round trips, lazy-range bounds with congruence, and the convolution theorem against a naive O(N^2) negacyclic product. Because the map is linear the unit-vector enumeration pins the whole matrix for those (N, q).",
         "Trusted: u128 modular arithmetic and refmath (deterministic Miller-Rabin, root search). Lazy ranges are those stated in the code comments.", "DESIGN.md §6 C09"),
 "C10": ("exploration", "property-based testing (proptest) against big-integer specifications + exhaustive enumeration over small bases",
         "Generated-input search: for random bases of 1..8 coprime moduli (2..60 bits, any order) every public RNSBase/RNSTool routine is run on boundary-biased integers and compared with its integer specification evaluated in big-integer arithmetic (exact value, or membership of the stated alpha-range for the approximate conversions); the BFV multiplication pipeline is checked as a composition; all ordered pairs/triples of small primes are enumerated over every integer below the product.",
         "Trusted: BigU/BigI (self-tested), own CRT. Decryption helpers are compared only outside the stated tie margins (2^-40, 2^-30).", "DESIGN.md §6 C10"),
}

PENDING_REASON = "check not built yet in this session (design in DESIGN.md §6); will be claimed once its harness module exists"

def main():
    props = [json.loads(l) for l in open(os.path.join(ROOT, "properties.jsonl"))]
    repo_commits = subprocess.run(["git", "-C", "/repo", "log", "--format=%h %s"], capture_output=True, text=True).stdout.splitlines()
    hook_commits = [l.split()[0] for l in repo_commits if l.split(" ", 1)[1].startswith("verif hooks")]
    checks, na = [], []
    for p in props:
        pid = p["id"]
        if pid in CLAIMED:
            cat, tech, text, note, ref = CLAIMED[pid]
            checks.append({
                "property_id": pid,
                "quick_cmd": f"./check {pid} quick",
                "thorough_cmd": f"./check {pid} thorough",
                "evidence_file": f"/verif/evidence/{pid}.json",
                "replay_cmd_template": f"./check {pid} --replay {{path}}",
                "engine": "hv",
                "level_claimed": {"category": cat, "text": text, "design_ref": ref},
                "level_note": note,
                "technique": tech,
            })
        else:
            na.append({"property_id": pid, "reason": NA.get(pid, PENDING_REASON)})
    m = {
        "version": 1,
        "setup_cmd": "cd /verif/harness && CARGO_NET_OFFLINE=true cargo build --release --offline",
        "hooks": {
            "guard": "cargo feature verif-hooks (heathcliff crate; off by default)",
            "enable": "the harness depends on /repo by path with features=[\"verif-hooks\"]; every ./check invocation runs cargo build, which rebuilds from /repo's working tree",
            "baseline_off_cmd": "cd /repo && cargo test --workspace --no-fail-fast --offline",
            "source_commits": hook_commits,
            "add_only": True,
        },
        "engines": [
            {"name": "hv", "path": "/verif/harness", "serves_properties": sorted(CLAIMED.keys()),
             "kind_free_text": "Rust binary driving proptest TestRunner shards (seeded from VERIF_SEED) plus exhaustive enumerators; explicit oracles (u128/bigint reference, shadow plaintext models, round trips, metamorphic relations); shrunk failures are written to /verif/replays/<ID>/ and replayed by every quick run"},
        ],
        "checks": checks,
        "not_applicable": na,
        "notes": "Exit codes of ./check: 0 held, 1 VIOLATION line printed, 2 harness problem (build failure, degenerate generator). Known/fixed findings: /verif/known_findings.json.",
    }
    out = os.path.join(ROOT, "MANIFEST.json")
    json.dump(m, open(out, "w"), indent=1)
    open(out, "a").write("\n")
    try:
        import jsonschema
        jsonschema.validate(m, json.load(open("/root/.vp/MANIFEST.schema.json")))
        print("MANIFEST.json valid;", len(checks), "claimed,", len(na), "not applicable")
    except ImportError:
        print("jsonschema not available; MANIFEST.json written unvalidated")

NA = {}
if __name__ == "__main__":
    main()
