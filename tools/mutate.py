#!/usr/bin/env python3
"""Sensitivity testing: apply a small source mutation to /repo, run a check, revert.
usage: mutate.py <ID> <name>            run the named mutation from mutations/<ID>.json
       mutate.py <ID> --all             run all mutations of that property
Each mutation: {"name":..., "file": "src/..", "old": "...", "new": "...", "expect": "caught"}.
Exit 0 iff every mutation run was caught (check exit code 1). /repo is restored with git checkout."""
import json, subprocess, sys, os, time
ROOT = os.path.dirname(os.path.dirname(os.path.abspath(__file__)))
OUT = "/tmp/hv_mut_root"
def run(pid, m, tier="quick"):
    subprocess.run(["rm","-rf",OUT]); os.makedirs(OUT)
    subprocess.run(["cp", os.path.join(ROOT,"known_findings.json"), OUT])
    subprocess.run(["cp","-r", os.path.join(ROOT,"replays"), OUT])
    if subprocess.run(["git","-C","/repo","status","--porcelain","--untracked-files=no"],capture_output=True,text=True).stdout.strip():
        print("refusing: /repo has uncommitted changes"); sys.exit(2)
    path = os.path.join("/repo", m["file"])
    s = open(path).read()
    # one edit (old/new/count) or several ("edits": [{old,new,count?}, ...]) in the same file
    for e in m.get("edits", [m]):
        cnt = s.count(e["old"])
        if cnt != e.get("count", 1):
            print(f"[{m['name']}] pattern occurs {cnt} times, expected {e.get('count',1)}: {e['old'][:60]!r}"); return None
        s = s.replace(e["old"], e["new"])
    try:
        open(path, "w").write(s)
        t0 = time.time()
        r = subprocess.run([os.path.join(ROOT, "check"), pid, tier] + (["--sub", m["sub"]] if m.get("sub") else []), capture_output=True, text=True, env=dict(os.environ, HV_OUT_ROOT=OUT))
        dt = time.time() - t0
        viol = [l for l in r.stdout.splitlines() if l.startswith("VIOLATION")]
        first = [l for l in r.stderr.splitlines() if l.startswith("  [")][:1]
        print(f"[{m['name']}] exit={r.returncode} violations={len(viol)} {dt:.0f}s {first[0][:220] if first else ''}")
        if r.returncode == 2: print(r.stderr[-800:])
        return r.returncode == 1
    finally:
        subprocess.run(["git","-C","/repo","checkout","--","."], check=True)
def main():
    pid, sel = sys.argv[1], sys.argv[2]
    tier = sys.argv[3] if len(sys.argv) > 3 else "quick"
    muts = json.load(open(os.path.join(ROOT, "mutations", pid + ".json")))
    ok = True
    for m in muts:
        if sel != "--all" and m["name"] != sel: continue
        res = run(pid, m, tier)
        if res is not True: ok = False
    sys.exit(0 if ok else 1)
main()
