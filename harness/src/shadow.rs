//! Shadow models: plaintext ring arithmetic and deterministic worst-case noise bounds (DESIGN.md §4).
//! All bounds are kept as log2 values (f64) so that they cannot overflow.
#![allow(dead_code)]

use crate::gen::params::*;
use crate::refmath as rm;

pub const E_MAX: f64 = 21.0; // |e| <= 21 for the centered binomial sampler
/// safety factor 2^6 applied before an equality with the shadow is asserted
pub const SAFETY_BITS: f64 = 6.0;

pub fn ladd(a: f64, b: f64) -> f64 {
    if a == f64::NEG_INFINITY { return b; }
    if b == f64::NEG_INFINITY { return a; }
    let (hi, lo) = if a > b { (a, b) } else { (b, a) };
    hi + (1.0 + (lo - hi).exp2()).log2()
}
pub fn lsum(xs: &[f64]) -> f64 { xs.iter().fold(f64::NEG_INFINITY, |a, &b| ladd(a, b)) }
fn l(x: f64) -> f64 { x.log2() }

/// sum_{j<size} N^j
pub fn s_poly(n: usize, size: usize) -> f64 { (0..size).map(|j| (n as f64).powi(j as i32)).sum() }

/// Noise model for one world. BFV: V bounds the invariant-noise numerator ||[t c(s) - Q m]_Q||; decryption is
/// correct iff V < Q/2. BGV: W bounds ||[c(s)]_Q|| (= f m_c + t e); correct iff W < Q/2.
/// `sn`: bound on the infinity norm of the secret key (1 for ternary keys; n for a sum of n ternary keys, C18).
/// `ksk_err`: bound on the error polynomial inside each key-switching key component (21 for locally generated keys).
pub struct NoiseModel { pub scheme: Scheme, pub n: f64, pub t: f64, pub has_special: bool, pub lp: f64, pub lqmax_key: f64, pub k_first: f64, pub sn: f64, pub ksk_err: f64 }

impl NoiseModel {
    pub fn new(w: &World) -> Self {
        let qmax = *w.levels[0].moduli.iter().max().unwrap() as f64;
        NoiseModel { scheme: w.ps.scheme, n: w.n as f64, t: w.ps.t.max(1) as f64, has_special: w.has_special_prime(),
            lp: l(w.special_prime() as f64), lqmax_key: l(qmax), k_first: w.levels[0].moduli.len() as f64, sn: 1.0, ksk_err: E_MAX }
    }
    /// log2 bound of a fresh encryption. `switched`: produced through the pk-path modulus switch
    /// (which only shrinks the error and adds a rounding term; no credit is taken for the shrinking).
    pub fn fresh(&self, public_key: bool, switched: bool) -> f64 {
        let e = if public_key { E_MAX * (2.0 * self.n * self.sn + 1.0) } else { E_MAX };
        let round = if switched { self.n * self.sn + 1.0 } else { 0.0 };
        match self.scheme {
            Scheme::BFV => l(self.t * e + self.t + self.t * round),
            Scheme::BGV => l(self.t * e + self.t + (self.t + 1.0) * round),
            Scheme::CKKS => l(e + round),
        }
    }
    /// sum_{j<size} (N ||s||)^j
    pub fn sp(&self, size: usize) -> f64 { (0..size).map(|j| (self.n * self.sn).powi(j as i32)).sum() }
    pub fn add(&self, a: f64, b: f64) -> f64 { ladd(a, b) }
    pub fn add_plain(&self, a: f64) -> f64 { ladd(a, l(self.t)) }
    /// multiplication by a plaintext with `nnz` non-zero coefficients (lifted values bounded by t)
    pub fn mul_plain(&self, a: f64, nnz: usize) -> f64 { a + l(nnz.max(1) as f64) + l(self.t) }
    pub fn mul(&self, a: f64, sa: usize, b: f64, sb: usize, k: usize, lq: f64) -> f64 {
        match self.scheme {
            Scheme::BFV => {
                let n = self.n; let kk = k as f64;
                let k1 = (kk + 1.0) * self.sp(sa) + 1.0;
                let k2 = (kk + 1.0) * self.sp(sb) + 1.0;
                let sd = self.sp(sa + sb - 1);
                lsum(&[
                    l(n * self.t) + ladd(a, b),
                    l(n * self.t) + ladd(a + l(k2), b + l(k1)),
                    l(n) + a + b - lq,
                    l(self.t * (kk + 1.0) * sd + 1.0),
                ])
            }
            Scheme::BGV => a + b + l(self.n),
            Scheme::CKKS => f64::NAN,
        }
    }
    /// key switching (relinearisation, Galois): additive term
    pub fn keyswitch(&self, a: f64, k_level: usize) -> f64 {
        let n = self.n;
        let base = (l(k_level as f64 * n * self.ksk_err) + self.lqmax_key - self.lp).exp2();
        let n = n * self.sn; // rounding term of the division by P: 1 + N ||s||
        let add = match self.scheme {
            Scheme::BFV => self.t * (base + n + 1.0),
            Scheme::BGV => self.t * base + (1.0 + self.t) * (n + 1.0),
            Scheme::CKKS => base + n + 1.0,
        };
        ladd(a, l(add))
    }
    pub fn modswitch(&self, a: f64, size: usize, q_last: u64) -> f64 {
        let s = self.sp(size);
        let add = match self.scheme { Scheme::BFV => self.t * s, Scheme::BGV => (self.t + 1.0) * s, Scheme::CKKS => s };
        ladd(a - l(q_last as f64), l(add))
    }
    /// may an exact equality be asserted at a level whose modulus has log2 = lq ?
    pub fn assertable(&self, lv: f64, lq: f64) -> bool { lv.is_finite() && lv + SAFETY_BITS < lq - 1.0 }
}

// ---------------------------------------------------------------------------------------------
// plaintext ring Z_t[X]/(X^N+1)

pub fn pad(v: &[u64], n: usize) -> Vec<u64> { let mut r = v.to_vec(); r.resize(n, 0); r }
pub fn padd(a: &[u64], b: &[u64], t: u64) -> Vec<u64> { a.iter().zip(b).map(|(x, y)| rm::addmod(*x, *y, t)).collect() }
pub fn psub(a: &[u64], b: &[u64], t: u64) -> Vec<u64> { a.iter().zip(b).map(|(x, y)| rm::submod(*x, *y, t)).collect() }
pub fn pneg(a: &[u64], t: u64) -> Vec<u64> { a.iter().map(|x| rm::negmod(*x, t)).collect() }
pub fn pmul(a: &[u64], b: &[u64], t: u64) -> Vec<u64> { rm::negacyclic_mul(a, b, t) }
pub fn pscale(a: &[u64], c: u64, t: u64) -> Vec<u64> { a.iter().map(|x| rm::mulmod(*x, c % t, t)).collect() }

/// plaintext coefficient values with boundary values over-represented; `sel`/`raw` pairs come from the generator
pub fn plain_value(sel: u8, raw: u64, t: u64) -> u64 {
    match sel % 10 {
        0 => 0, 1 => 1 % t, 2 => t - 1, 3 => t / 2, 4 => (t + 1) / 2, 5 => ((t + 1) / 2 + 1) % t, 6 => (t / 2).saturating_sub(1),
        _ => raw % t,
    }
}

/// Worst-case slot-domain error of decode(decrypt(..)) for a CKKS plaintext whose coefficient-domain error is
/// bounded by `e_coeff`, whose exact message has slot magnitudes <= `max_abs` at `scale`, under a modulus of
/// `qwords` 64-bit words. Three terms:
///  * noise / rounding:  N * e_coeff / scale                     (|sigma(e)| <= sum |e_i|)
///  * double-precision FFTs (encode + decode): 1024 eps (logN+1) (max_abs+1)
///  * the decoder's word-wise conversion of negative multi-word coefficients (same algorithm as upstream SEAL):
///    it sums per-word differences of magnitude up to 2^(64*w) in f64, w = words of the coefficient magnitude,
///    so a borrow costs up to eps * 2^(64 w) / scale per coefficient. Only for moduli of two or more words.
pub fn ckks_tolerance(n: usize, logn: u32, scale: f64, max_abs: f64, e_coeff: f64, qwords: usize) -> f64 {
    let nf = n as f64;
    let noise = nf * e_coeff / scale;
    let fft = 1024.0 * f64::EPSILON * (logn as f64 + 1.0) * (max_abs + 1.0);
    let xmax = scale * max_abs + e_coeff + 2.0;
    let w = (xmax.log2() / 64.0).floor() + 1.0;
    let neg = if qwords >= 2 { nf * 4.0 * f64::EPSILON * (64.0 * w).exp2() / scale } else { 0.0 };
    noise + fft + neg
}
