//! Proptest-driven search engine: shards, classification counters, samples, replay, evidence.
#![allow(dead_code)]

use proptest::strategy::{BoxedStrategy, Strategy, ValueTree};
use proptest::test_runner::{Config, RngAlgorithm, TestCaseError, TestError, TestRng, TestRunner};
use serde::{de::DeserializeOwned, Serialize};
use serde_json::{json, Value};
use std::collections::{BTreeMap, HashSet};
use std::panic::{catch_unwind, AssertUnwindSafe};
use std::sync::atomic::{AtomicBool, AtomicU64, Ordering};
use std::sync::{Arc, Mutex};

#[derive(Clone, Copy, PartialEq, Eq, Debug)]
pub enum Tier { Quick, Thorough }
impl Tier {
    pub fn name(&self) -> &'static str { match self { Tier::Quick => "quick", Tier::Thorough => "thorough" } }
    /// pick by tier
    pub fn pick<T>(&self, q: T, t: T) -> T { match self { Tier::Quick => q, Tier::Thorough => t } }
}

/// Outcome of judging one case.
#[derive(Clone, Debug)]
pub enum Verdict {
    Pass(Info),
    /// the property is violated on this case
    Fail { msg: String, key: Option<String> },
}
#[derive(Clone, Debug, Default)]
pub struct Info {
    pub nontrivial: bool,
    pub labels: Vec<String>,
    /// number of inner evaluations this case performed (>= 1)
    pub evals: u64,
}
impl Info {
    pub fn new(nontrivial: bool) -> Self { Info { nontrivial, labels: vec![], evals: 1 } }
    pub fn label(mut self, l: impl Into<String>) -> Self { self.labels.push(l.into()); self }
    pub fn label_if(mut self, c: bool, l: &str) -> Self { if c { self.labels.push(l.into()); } self }
    pub fn evals(mut self, n: u64) -> Self { self.evals = n.max(1); self }
}
pub fn pass(nontrivial: bool) -> Verdict { Verdict::Pass(Info::new(nontrivial)) }
pub fn fail(msg: impl Into<String>) -> Verdict { Verdict::Fail { msg: msg.into(), key: None } }
pub fn fail_key(key: impl Into<String>, msg: impl Into<String>) -> Verdict { Verdict::Fail { msg: msg.into(), key: Some(key.into()) } }

/// `check!(cond, "fmt", args..)` returns a Fail verdict from the enclosing oracle when cond is false.
#[macro_export]
macro_rules! check {
    ($cond:expr, $($arg:tt)*) => { if !($cond) { return $crate::runner::fail(format!($($arg)*)); } };
}
#[macro_export]
macro_rules! check_eq {
    ($a:expr, $b:expr, $($arg:tt)*) => {{ let (a, b) = (&$a, &$b); if a != b { return $crate::runner::fail(format!("{}: left={:?} right={:?}", format!($($arg)*), a, b)); } }};
}

/// keys of `known` findings of the running property (set once by main) so that an oracle that
/// evaluates several functions per case can report an unknown failure ahead of a known one.
pub static KNOWN_KEYS: std::sync::OnceLock<HashSet<String>> = std::sync::OnceLock::new();

/// Collects per-function failures inside one case.
#[derive(Default)]
pub struct Fails(pub Vec<(String, String)>);
impl Fails {
    pub fn new() -> Self { Fails(vec![]) }
    pub fn add(&mut self, key: impl Into<String>, msg: impl Into<String>) { if self.0.len() < 64 { self.0.push((key.into(), msg.into())); } }
    pub fn expect_eq<T: PartialEq + std::fmt::Debug>(&mut self, key: &str, got: T, want: T, ctx: impl FnOnce() -> String) {
        if got != want { self.add(key, format!("{}: got {:?}, want {:?} ({})", key, got, want, ctx())); }
    }
    pub fn verdict(self, info: Info) -> Verdict {
        if self.0.is_empty() { return Verdict::Pass(info); }
        let known = KNOWN_KEYS.get();
        let pick = self.0.iter().find(|(k, _)| known.map_or(true, |s| !s.contains(k))).unwrap_or(&self.0[0]);
        Verdict::Fail { msg: pick.1.clone(), key: Some(pick.0.clone()) }
    }
}

// ---------------------------------------------------------------------------------------------
// panic capture

thread_local! { static LAST_PANIC: std::cell::RefCell<Option<String>> = const { std::cell::RefCell::new(None) }; }

pub fn install_panic_hook() {
    std::panic::set_hook(Box::new(|info| {
        let loc = info.location().map(|l| format!("{}:{}", l.file(), l.line())).unwrap_or_default();
        let msg = if let Some(s) = info.payload().downcast_ref::<&str>() { s.to_string() }
            else if let Some(s) = info.payload().downcast_ref::<String>() { s.clone() } else { "<non-string panic>".into() };
        LAST_PANIC.with(|p| *p.borrow_mut() = Some(format!("{msg} @ {loc}")));
        if std::env::var("HV_SHOW_PANICS").is_ok() { eprintln!("[panic] {msg} @ {loc}"); }
    }));
}

/// Run `f`, turning a panic into Err(message with location).
pub fn catch<T>(f: impl FnOnce() -> T) -> Result<T, String> {
    match catch_unwind(AssertUnwindSafe(f)) {
        Ok(v) => Ok(v),
        Err(_) => Err(LAST_PANIC.with(|p| p.borrow_mut().take()).unwrap_or_else(|| "<panic>".into())),
    }
}
/// true iff `f` panicked (the library's refusal convention)
pub fn refuses<T>(f: impl FnOnce() -> T) -> bool { catch(f).is_err() }

// ---------------------------------------------------------------------------------------------

pub struct RunCfg {
    pub property: String,
    pub tier: Tier,
    pub seed: u64,
    pub root: String,
    pub threads: usize,
    pub known: Vec<KnownFinding>,
    /// scale factor on case counts (HV_SCALE env; for experiments only)
    pub scale: f64,
}

#[derive(Clone, Debug, serde::Deserialize)]
pub struct KnownFinding {
    pub status: String,
    pub property: String,
    pub key: String,
    #[serde(default)] pub commit: Option<String>,
    pub what: String,
    #[serde(default)] pub replay: Option<String>,
}

#[derive(Default)]
pub struct SubStats {
    pub cases: u64,
    pub evaluations: u64,
    pub nontrivial_cases: u64,
    pub distinct_nontrivial: HashSet<u64>,
    pub labels: BTreeMap<String, u64>,
    pub samples: Vec<Value>,
    pub last_nontrivial: Option<Value>,
    pub failures: Vec<Failure>,
    pub known_hits: BTreeMap<String, u64>,
    pub exhaustive: bool,
    pub notes: Vec<String>,
    pub wall_s: f64,
    pub min_nontrivial_fraction: f64,
}
#[derive(Clone, Debug)]
pub struct Failure { pub msg: String, pub case: Value, pub key: Option<String> }

pub struct SubReport { pub name: String, pub stats: SubStats }

type RunFn = Box<dyn Fn(&RunCfg, &str) -> SubStats + Send + Sync>;
type ReplayFn = Box<dyn Fn(&Value) -> Result<Verdict, String> + Send + Sync>;
/// decode fuzzer bytes into a case (hand-written decoder mirroring the sub-check's generator) and judge it with the sub-check's oracle
pub type FuzzFn = Box<dyn Fn(&[u8], Tier) -> Option<(Value, Verdict)> + Send + Sync>;

thread_local! { static SHRINK_ITERS: std::cell::Cell<u32> = const { std::cell::Cell::new(4000) }; }

/// Result of running a closure on a worker thread under a deadline (used only where termination is part of the property).
pub enum Timed<T> { Done(T), Panicked(String), Hang }
static HANGS: Mutex<BTreeMap<String, u32>> = Mutex::new(BTreeMap::new());

/// Run `f` on its own thread. First observations of an entry point get `deadline`; once an entry point (`key`) has hung,
/// later calls get a 500 ms deadline, and after 6 hangs it is no longer executed at all (each hang leaves a spinning thread).
pub fn timed<T: Send + 'static>(key: &str, deadline: std::time::Duration, f: impl FnOnce() -> T + Send + 'static) -> Timed<T> {
    let seen = HANGS.lock().unwrap().get(key).cloned().unwrap_or(0);
    if seen >= 6 { return Timed::Hang; }
    let dl = if seen > 0 { std::time::Duration::from_millis(500) } else { deadline };
    let (tx, rx) = std::sync::mpsc::channel();
    let h = std::thread::Builder::new().stack_size(32 << 20).spawn(move || { let r = catch(f); let _ = tx.send(r); });
    if h.is_err() { return Timed::Panicked("could not spawn worker thread".into()); }
    match rx.recv_timeout(dl) {
        Ok(Ok(v)) => Timed::Done(v),
        Ok(Err(p)) => Timed::Panicked(p),
        Err(_) => { *HANGS.lock().unwrap().entry(key.to_string()).or_insert(0) += 1; Timed::Hang }
    }
}

pub struct Sub {
    pub name: &'static str,
    pub run: RunFn,
    pub replay: ReplayFn,
    pub fuzz: Option<FuzzFn>,
}

fn digest(v: &str) -> u64 {
    let h = blake3::hash(v.as_bytes());
    u64::from_le_bytes(h.as_bytes()[..8].try_into().unwrap())
}

pub fn derive_seed(seed: u64, parts: &[&str], shard: u64) -> [u8; 32] {
    let mut h = blake3::Hasher::new();
    h.update(b"hv-seed"); h.update(&seed.to_le_bytes());
    for p in parts { h.update(p.as_bytes()); h.update(&[0]); }
    h.update(&shard.to_le_bytes());
    *h.finalize().as_bytes()
}
pub fn derive_u64(seed: u64, parts: &[&str], shard: u64) -> u64 {
    u64::from_le_bytes(derive_seed(seed, parts, shard)[..8].try_into().unwrap())
}

fn judge<C>(oracle: &(dyn Fn(&C) -> Verdict + Send + Sync), c: &C) -> Verdict {
    match catch(|| oracle(c)) {
        Ok(v) => v,
        Err(p) => Verdict::Fail { msg: format!("unexpected panic: {p}"), key: None },
    }
}

fn is_known(cfg: &RunCfg, key: &Option<String>) -> bool {
    match key { Some(k) => cfg.known.iter().any(|f| f.status == "known" && f.property == cfg.property && &f.key == k), None => false }
}

struct Shared { stats: Mutex<SubStats>, stop: AtomicBool, evals: AtomicU64 }

fn record<C: Serialize>(cfg: &RunCfg, sh: &Shared, c: &C, v: &Verdict) -> bool {
    // returns true if the case counts as failing (for proptest)
    match v {
        Verdict::Pass(info) => {
            let mut st = sh.stats.lock().unwrap();
            st.cases += 1; st.evaluations += info.evals.max(1);
            for l in &info.labels { *st.labels.entry(l.clone()).or_insert(0) += 1; }
            if info.nontrivial {
                st.nontrivial_cases += 1;
                let js = serde_json::to_string(c).unwrap_or_default();
                let d = digest(&js);
                if st.distinct_nontrivial.insert(d) {
                    let n = st.distinct_nontrivial.len();
                    if st.samples.len() < 3 || (n.is_power_of_two() && st.samples.len() < 6) {
                        let val = serde_json::from_str(&js).unwrap_or(Value::Null);
                        st.samples.push(shorten(val));
                    } else if n % 64 == 0 { st.last_nontrivial = serde_json::from_str(&js).ok().map(shorten); }
                }
            }
            false
        }
        Verdict::Fail { msg: _, key } => {
            if is_known(cfg, key) {
                let mut st = sh.stats.lock().unwrap();
                st.cases += 1; st.evaluations += 1;
                *st.known_hits.entry(key.clone().unwrap()).or_insert(0) += 1;
                false
            } else { true }
        }
    }
}

/// keep evidence samples readable: truncate long arrays
pub fn shorten(v: Value) -> Value {
    match v {
        Value::Array(a) => {
            let n = a.len();
            if n > 24 {
                let mut out: Vec<Value> = a.into_iter().take(16).map(shorten).collect();
                out.push(Value::String(format!("... ({} items total)", n)));
                Value::Array(out)
            } else { Value::Array(a.into_iter().map(shorten).collect()) }
        }
        Value::Object(o) => Value::Object(o.into_iter().map(|(k, v)| (k, shorten(v))).collect()),
        Value::String(s) if s.len() > 400 => Value::String(format!("{}... ({} chars)", &s[..200], s.len())),
        o => o,
    }
}

/// One saved fuzzer input (regression tier of engine E3).
#[derive(Clone, Debug, Serialize, serde::Deserialize)]
pub struct CorpusCase { pub file: String, pub hex: String }
pub fn corpus_dir(target: &str) -> String { format!("{}/{target}", std::env::var("HV_CORPUS_ROOT").unwrap_or_else(|_| "/verif/corpus".into())) }
fn unhex(h: &str) -> Vec<u8> { (0..h.len() / 2).filter_map(|i| u8::from_str_radix(&h[2 * i..2 * i + 2], 16).ok()).collect() }

impl Sub {
    /// Replay of the saved fuzz corpus of `target` through a decoder and the sub-check's oracle (no fuzzer needed).
    pub fn corpus<C, D, O>(name: &'static str, target: &'static str, decode: D, oracle: O) -> Sub
    where C: Serialize + 'static, D: Fn(&mut crate::fuzz::Src) -> Option<C> + Send + Sync + 'static, O: Fn(&C) -> Verdict + Send + Sync + 'static {
        Sub::enumerate(name, move |_| {
            let mut v = vec![];
            if let Ok(rd) = std::fs::read_dir(corpus_dir(target)) {
                let mut names: Vec<_> = rd.filter_map(|e| e.ok()).map(|e| e.path()).filter(|p| p.is_file()).collect();
                names.sort();
                for p in names { if let Ok(b) = std::fs::read(&p) { v.push(CorpusCase { file: p.file_name().map(|f| f.to_string_lossy().to_string()).unwrap_or_default(), hex: b.iter().map(|x| format!("{x:02x}")).collect() }); } }
            }
            v
        }, move |c: &CorpusCase| {
            let bytes = unhex(&c.hex);
            let mut src = crate::fuzz::Src::new(&bytes);
            match catch(|| decode(&mut src)) {
                Ok(Some(case)) => match judge(&oracle, &case) { Verdict::Pass(i) => Verdict::Pass(Info { nontrivial: true, labels: i.labels, evals: i.evals }), f => f },
                _ => pass(false),
            }
        })
    }
    /// Attach a byte decoder for the coverage-guided engine (E3): `decode` must produce only cases the sub-check's
    /// strategy can produce (same mapping functions), `oracle` is the sub-check's oracle.
    pub fn fuzzable<C, D, O>(mut self, decode: D, oracle: O) -> Sub
    where C: Serialize + 'static, D: Fn(&mut crate::fuzz::Src) -> Option<C> + Send + Sync + 'static, O: Fn(&C) -> Verdict + Send + Sync + 'static {
        self.fuzz = Some(Box::new(move |data, _tier| {
            let mut src = crate::fuzz::Src::new(data);
            let c = catch(|| decode(&mut src)).ok()??;
            let v = judge(&oracle, &c);
            Some((serde_json::to_value(&c).unwrap_or(Value::Null), v))
        }));
        self
    }
    /// Random search with shrinking. `strategy(tier)` is built once per shard.
    pub fn prop<C, S, O>(name: &'static str, cases_quick: u64, cases_thorough: u64, min_nontrivial: f64, strategy: S, oracle: O) -> Sub
    where C: Serialize + DeserializeOwned + Clone + std::fmt::Debug + 'static,
          S: Fn(Tier) -> BoxedStrategy<C> + Send + Sync + 'static,
          O: Fn(&C) -> Verdict + Send + Sync + 'static,
    {
        let oracle = Arc::new(oracle);
        let o2 = oracle.clone();
        let strategy = Arc::new(strategy);
        let run: RunFn = Box::new(move |cfg, prop| {
            let t0 = std::time::Instant::now();
            let total = ((cfg.tier.pick(cases_quick, cases_thorough) as f64) * cfg.scale).ceil() as u64;
            let shards = (cfg.threads as u64).min(total.max(1)).max(1);
            let sh = Shared { stats: Mutex::new(SubStats::default()), stop: AtomicBool::new(false), evals: AtomicU64::new(0) };
            std::thread::scope(|scope| {
                for shard in 0..shards {
                    let per = total / shards + if shard < total % shards { 1 } else { 0 };
                    if per == 0 { continue; }
                    let sh = &sh; let oracle = &oracle; let strategy = &*strategy;
                    std::thread::Builder::new().stack_size(64 << 20).spawn_scoped(scope, move || {
                        if name.ends_with("_timed") { SHRINK_ITERS.with(|c| c.set(150)); }
                        let seed = derive_seed(cfg.seed, &[prop, name], shard);
                        let config = Config { cases: per as u32, failure_persistence: None, max_shrink_iters: SHRINK_ITERS.with(|c| c.get()), max_global_rejects: 65536, ..Config::default() };
                        let mut runner = TestRunner::new_with_rng(config, TestRng::from_seed(RngAlgorithm::ChaCha, &seed));
                        let strat = strategy(cfg.tier);
                        let failed_once = std::cell::Cell::new(false);
                        let res = catch(|| runner.run(&strat, |c| {
                            let v = judge(&**oracle, &c);
                            if failed_once.get() {
                                // shrinking phase: do not count, only report failing or not
                                return match v { Verdict::Fail { msg, key } if !is_known(cfg, &key) => Err(TestCaseError::fail(msg)), _ => Ok(()) };
                            }
                            if record(cfg, sh, &c, &v) {
                                failed_once.set(true);
                                if let Verdict::Fail { msg, .. } = v { return Err(TestCaseError::fail(msg)); }
                            }
                            Ok(())
                        }));
                        let res = match res { Ok(r) => r, Err(p) => { sh.stats.lock().unwrap().notes.push(format!("proptest abort: harness panic outside the oracle: {p}")); return; } };
                        match res {
                            Ok(()) => {}
                            Err(TestError::Fail(reason, c)) => {
                                // re-judge the shrunk case to obtain its own message / key; a case that depends on real thread timing
                                // (C17 free-running) may not fail again: keep the message of the failing execution then
                                let v = judge(&**oracle, &c);
                                let (msg, key) = match v { Verdict::Fail { msg, key } => (msg, key), _ => (format!("{} (observed once; the case did not fail again when re-executed: timing-dependent)", reason.message()), None) };
                                let case = serde_json::to_value(&c).unwrap_or(Value::Null);
                                sh.stats.lock().unwrap().failures.push(Failure { msg, case, key });
                            }
                            Err(TestError::Abort(r)) => {
                                sh.stats.lock().unwrap().notes.push(format!("proptest abort: {r}"));
                            }
                        }
                    }).unwrap();
                }
            });
            let mut st = sh.stats.into_inner().unwrap();
            st.wall_s = t0.elapsed().as_secs_f64();
            st.min_nontrivial_fraction = min_nontrivial;
            st
        });
        let replay: ReplayFn = Box::new(move |v| {
            let c: C = serde_json::from_value(v.clone()).map_err(|e| format!("cannot decode case: {e}"))?;
            Ok(judge(&*o2, &c))
        });
        Sub { name, run, replay, fuzz: None }
    }

    /// Exhaustive enumeration of a finite space (no shrinking; the first failures are reported).
    pub fn enumerate<C, E, O>(name: &'static str, enumerate: E, oracle: O) -> Sub
    where C: Serialize + DeserializeOwned + Clone + std::fmt::Debug + Send + Sync + 'static,
          E: Fn(Tier) -> Vec<C> + Send + Sync + 'static,
          O: Fn(&C) -> Verdict + Send + Sync + 'static,
    {
        let oracle = Arc::new(oracle);
        let o2 = oracle.clone();
        let run: RunFn = Box::new(move |cfg, _prop| {
            let t0 = std::time::Instant::now();
            let items = enumerate(cfg.tier);
            let sh = Shared { stats: Mutex::new(SubStats::default()), stop: AtomicBool::new(false), evals: AtomicU64::new(0) };
            let next = AtomicU64::new(0);
            let threads = cfg.threads.min(items.len().max(1));
            std::thread::scope(|scope| {
                for _ in 0..threads {
                    let (sh, oracle, items, next) = (&sh, &oracle, &items, &next);
                    std::thread::Builder::new().stack_size(64 << 20).spawn_scoped(scope, move || loop {
                        let i = next.fetch_add(1, Ordering::Relaxed) as usize;
                        if i >= items.len() { break; }
                        let c = &items[i];
                        let v = judge(&**oracle, c);
                        if record(cfg, sh, c, &v) {
                            if let Verdict::Fail { msg, key } = v {
                                let mut st = sh.stats.lock().unwrap();
                                if st.failures.len() < 5 { st.failures.push(Failure { msg, case: serde_json::to_value(c).unwrap_or(Value::Null), key }); }
                            }
                        }
                    }).unwrap();
                }
            });
            let mut st = sh.stats.into_inner().unwrap();
            st.exhaustive = true;
            st.wall_s = t0.elapsed().as_secs_f64();
            st
        });
        let replay: ReplayFn = Box::new(move |v| {
            let c: C = serde_json::from_value(v.clone()).map_err(|e| format!("cannot decode case: {e}"))?;
            Ok(judge(&*o2, &c))
        });
        Sub { name, run, replay, fuzz: None }
    }
}

// ---------------------------------------------------------------------------------------------

pub struct PropertyDef {
    pub id: &'static str,
    pub level: &'static str,
    pub rule: &'static str,
    pub assumptions: Vec<&'static str>,
    pub subs: Vec<Sub>,
}

pub fn load_known(root: &str) -> Vec<KnownFinding> {
    let p = format!("{root}/known_findings.json");
    match std::fs::read_to_string(&p) {
        Ok(s) => serde_json::from_str(&s).unwrap_or_else(|e| { eprintln!("hv: cannot parse {p}: {e}"); std::process::exit(2) }),
        Err(_) => vec![],
    }
}

fn write_replay(cfg: &RunCfg, sub: &str, f: &Failure) -> String {
    let body = json!({ "property": cfg.property, "subcheck": sub, "message": f.msg, "key": f.key, "case": f.case });
    let s = serde_json::to_string_pretty(&body).unwrap();
    let d = digest(&serde_json::to_string(&f.case).unwrap());
    let dir = format!("{}/replays/{}", cfg.root, cfg.property);
    let _ = std::fs::create_dir_all(&dir);
    let path = format!("{dir}/{sub}-{d:016x}.json");
    if let Err(e) = std::fs::write(&path, s) { eprintln!("hv: cannot write replay {path}: {e}"); }
    path
}

/// Run all sub-checks of a property, write evidence, print VIOLATION / KNOWN-FINDING lines. Returns exit code.
pub fn run_property(def: &PropertyDef, cfg: &RunCfg, only_sub: Option<&str>) -> i32 {
    let t0 = std::time::Instant::now();
    let mut violations = 0u64;
    let mut degenerate = vec![];
    let mut sub_tables = vec![];
    let mut samples: Vec<Value> = vec![];
    let (mut evaluations, mut cases, mut distinct) = (0u64, 0u64, 0u64);
    let mut labels: BTreeMap<String, u64> = BTreeMap::new();
    let mut known_printed: HashSet<String> = HashSet::new();
    let mut all_exhaustive = true;

    // regression tier: replay stored cases first
    let mut replayed = 0u64;
    let dir = format!("{}/replays/{}", cfg.root, def.id);
    if let Ok(rd) = std::fs::read_dir(&dir) {
        let mut files: Vec<_> = rd.filter_map(|e| e.ok()).map(|e| e.path()).filter(|p| p.extension().map_or(false, |x| x == "json")).collect();
        files.sort();
        for p in files {
            let path = p.to_string_lossy().to_string();
            match replay_file(def, cfg, &path, false) {
                ReplayOutcome::Pass => { replayed += 1; }
                ReplayOutcome::Known(k, what) => { replayed += 1; if known_printed.insert(k.clone()) { println!("KNOWN-FINDING: property={} {} [{}]", def.id, what, k); } }
                ReplayOutcome::Fail(msg) => { replayed += 1; violations += 1; println!("VIOLATION property={} replay={}", def.id, path); eprintln!("  replay {path}: {msg}"); }
                ReplayOutcome::Error(e) => { eprintln!("hv: replay file {path} unusable: {e}"); }
            }
        }
    }

    for sub in &def.subs {
        if let Some(o) = only_sub { if o != sub.name { continue; } }
        let st = (sub.run)(cfg, def.id);
        evaluations += st.evaluations; cases += st.cases; distinct += st.distinct_nontrivial.len() as u64;
        for (k, v) in &st.labels { *labels.entry(format!("{}/{}", sub.name, k)).or_insert(0) += v; }
        for s in st.samples.iter() { samples.push(json!({"subcheck": sub.name, "case": s})); }
        if let Some(l) = &st.last_nontrivial { samples.push(json!({"subcheck": sub.name, "case": l})); }
        if !st.exhaustive { all_exhaustive = false; }
        for (k, n) in &st.known_hits {
            let what = cfg.known.iter().find(|f| &f.key == k).map(|f| f.what.clone()).unwrap_or_default();
            if known_printed.insert(k.clone()) { println!("KNOWN-FINDING: property={} {} [{}; {} generated cases excluded]", def.id, what, k, n); }
        }
        let mut seen = HashSet::new();
        for f in &st.failures {
            let d = serde_json::to_string(&f.case).unwrap_or_default();
            if !seen.insert(d) { continue; }
            violations += 1;
            let path = write_replay(cfg, sub.name, f);
            println!("VIOLATION property={} replay={}", def.id, path);
            eprintln!("  [{}] {}", sub.name, f.msg);
            eprintln!("  case: {}", serde_json::to_string(&shorten(f.case.clone())).unwrap_or_default());
        }
        for n in &st.notes { eprintln!("hv: [{}] note: {}", sub.name, n); if n.starts_with("proptest abort") { degenerate.push(format!("{}: {}", sub.name, n)); } }
        let frac = if st.cases > 0 { st.nontrivial_cases as f64 / st.cases as f64 } else { 0.0 };
        if st.failures.is_empty() && st.cases > 0 && frac < st.min_nontrivial_fraction {
            degenerate.push(format!("{}: non-trivial fraction {:.3} below floor {:.3}", sub.name, frac, st.min_nontrivial_fraction));
        }
        eprintln!("hv: {} {:<28} cases={:<8} evals={:<10} nontrivial={:<8} distinct={:<8} known_excl={} fail={} {:.1}s",
            def.id, sub.name, st.cases, st.evaluations, st.nontrivial_cases, st.distinct_nontrivial.len(),
            st.known_hits.values().sum::<u64>(), st.failures.len(), st.wall_s);
        sub_tables.push(json!({
            "name": sub.name, "cases": st.cases, "evaluations": st.evaluations, "nontrivial_cases": st.nontrivial_cases,
            "distinct_nontrivial": st.distinct_nontrivial.len(), "exhaustive": st.exhaustive,
            "known_finding_cases_excluded": st.known_hits, "failures": st.failures.len(), "wall_s": (st.wall_s * 100.0).round() / 100.0,
            "labels": st.labels,
        }));
    }

    let wall = t0.elapsed().as_secs_f64();
    if samples.is_empty() { samples.push(json!("no non-trivial case was generated")); }
    if samples.len() > 40 { samples.truncate(40); }
    let evidence = json!({
        "property_id": def.id, "tier": cfg.tier.name(), "seed": cfg.seed, "level": def.level,
        "coverage": {
            "evaluations": evaluations, "cases": cases, "distinct_nontrivial": distinct, "rule": def.rule,
            "samples": samples, "exhaustive": all_exhaustive && only_sub.is_none(), "subchecks": sub_tables, "labels": labels,
            "replayed_regression_cases": replayed,
            "known_findings_reported": known_printed.iter().collect::<Vec<_>>(),
        },
        "assumptions": def.assumptions, "wall_s": (wall * 100.0).round() / 100.0, "violations": violations,
    });
    if only_sub.is_none() {
        let dir = format!("{}/evidence", cfg.root);
        let _ = std::fs::create_dir_all(&dir);
        let path = format!("{dir}/{}.json", def.id);
        if let Err(e) = std::fs::write(&path, serde_json::to_string_pretty(&evidence).unwrap() + "\n") { eprintln!("hv: cannot write {path}: {e}"); return 2; }
    }
    eprintln!("hv: {} tier={} seed={} evaluations={} distinct_nontrivial={} violations={} wall={:.1}s", def.id, cfg.tier.name(), cfg.seed, evaluations, distinct, violations, wall);
    if violations > 0 { return 1; }
    if !degenerate.is_empty() { for d in degenerate { eprintln!("hv: HARNESS PROBLEM (generator degenerate): {d}"); } return 2; }
    0
}

pub enum ReplayOutcome { Pass, Known(String, String), Fail(String), Error(String) }

pub fn replay_file(def: &PropertyDef, cfg: &RunCfg, path: &str, verbose: bool) -> ReplayOutcome {
    let s = match std::fs::read_to_string(path) { Ok(s) => s, Err(e) => return ReplayOutcome::Error(e.to_string()) };
    let v: Value = match serde_json::from_str(&s) { Ok(v) => v, Err(e) => return ReplayOutcome::Error(e.to_string()) };
    let subname = v["subcheck"].as_str().unwrap_or("");
    let sub = match def.subs.iter().find(|s| s.name == subname) { Some(s) => s, None => return ReplayOutcome::Error(format!("unknown subcheck {subname}")) };
    match (sub.replay)(&v["case"]) {
        Err(e) => ReplayOutcome::Error(e),
        Ok(Verdict::Pass(_)) => { if verbose { eprintln!("replay: case passes"); } ReplayOutcome::Pass }
        Ok(Verdict::Fail { msg, key }) => {
            if verbose { eprintln!("replay: FAIL: {msg}"); }
            if is_known(cfg, &key) {
                let k = key.unwrap();
                let what = cfg.known.iter().find(|f| f.key == k).map(|f| f.what.clone()).unwrap_or_default();
                ReplayOutcome::Known(k, what)
            } else { ReplayOutcome::Fail(msg) }
        }
    }
}

// ---------------------------------------------------------------------------------------------
// strategy helpers

/// monotone index mapping (shrinks towards 0)
#[inline] pub fn pick_idx(sel: u16, len: usize) -> usize { if len == 0 { 0 } else { ((sel as usize) * len) >> 16 } }

pub fn boxed<S: Strategy + 'static>(s: S) -> BoxedStrategy<S::Value> { s.boxed() }

/// draw one value from a strategy with a fixed seed (for enumerators that need sample data)
pub fn sample_one<S: Strategy>(s: &S, seed: [u8; 32]) -> S::Value {
    let mut runner = TestRunner::new_with_rng(Config::default(), TestRng::from_seed(RngAlgorithm::ChaCha, &seed));
    s.new_tree(&mut runner).unwrap().current()
}
