//! Shared generators (constructive; indices mapped monotonically so shrinking works).
#![allow(dead_code)]



pub mod words;
pub mod params;

pub use words::*;
