//! Word-level generators: moduli of every shape, operands with boundary values, limb patterns.
use proptest::prelude::*;
use crate::refmath;

/// A modulus value 2 <= q < 2^maxbits (maxbits <= 61) with interesting shapes over-represented.
pub fn modulus_value(minbits: u32, maxbits: u32) -> BoxedStrategy<u64> {
    assert!(minbits >= 2 && maxbits <= 61 && minbits <= maxbits);
    (minbits..=maxbits, 0u8..10, any::<u64>()).prop_map(move |(bits, shape, r)| modulus_from(bits, shape, r)).boxed()
}
/// the mapping behind `modulus_value` (shared with the fuzz decoder)
pub fn modulus_from(bits: u32, shape: u8, r: u64) -> u64 {
    let lo = 1u64 << (bits - 1);
    let hi = if bits == 64 { u64::MAX } else { (1u64 << bits) - 1 };
    let clamp = |v: u64| v.clamp(lo.max(2), hi);
    match shape {
        0 => clamp(lo),                       // 2^k
        1 => clamp(lo + 1),                   // 2^k + 1
        2 => clamp(hi),                       // 2^k - 1
        3 => clamp(hi - (r % 4)),             // just below the top
        4 => {                                // a prime of that size (search downwards a little)
            let mut v = clamp(lo + r % (hi - lo + 1)) | 1;
            let mut n = 0;
            while !refmath::is_prime(v) && n < 200 { v = if v + 2 > hi { lo | 1 } else { v + 2 }; n += 1; }
            clamp(v)
        }
        5 => clamp((lo + r % (hi - lo + 1)) & !1),  // even
        _ => clamp(lo + r % (hi - lo + 1)),
    }
}
/// fuzz decoders: the same choices drawn from fuzzer bytes
pub fn modulus_decode(src: &mut crate::fuzz::Src, minbits: u32, maxbits: u32) -> u64 {
    let bits = src.incl(minbits as u64, maxbits as u64) as u32; let shape = src.below(10) as u8; let r = src.u64();
    modulus_from(bits, shape, r)
}
pub fn limb_decode(src: &mut crate::fuzz::Src) -> u64 {
    match src.below(11) { 0..=2 => src.u64(), 3 => 0, 4 | 5 => u64::MAX, 6 => 1u64 << 63, 7 => 1, 8 => u64::MAX - 1, 9 => 1u64 << src.below(64), _ => u64::MAX >> src.below(64) }
}
pub fn limbs_decode(src: &mut crate::fuzz::Src, len: usize) -> Vec<u64> {
    let v: Vec<u64> = (0..len).map(|_| limb_decode(src)).collect();
    limbs_mode(v, src.below(8) as u8)
}
/// the post-processing behind `limbs`
pub fn limbs_mode(mut v: Vec<u64>, mode: u8) -> Vec<u64> {
    match mode {
        0 => { let x = v[0]; for l in v.iter_mut() { *l = x; } }  // equal words
        1 => { for l in v.iter_mut() { *l = u64::MAX; } }
        2 => { let n = v.len(); for l in v.iter_mut().skip(n / 2 + 1) { *l = 0; } }       // short significant part
        _ => {}
    }
    v
}

/// an operand relative to q: boundary values and uniform below `bound` (exclusive; bound>=1)
pub fn operand_below(sel: u8, r: u64, bound: u64) -> u64 {
    if bound <= 1 { return 0; }
    match sel % 8 {
        0 => 0,
        1 => 1 % bound,
        2 => bound - 1,
        3 => bound / 2,
        4 => (bound / 2 + 1) % bound,
        _ => r % bound,
    }
}

/// any u64 with boundary values around q over-represented
pub fn operand_any(sel: u8, r: u64, q: u64) -> u64 {
    match sel % 16 {
        0 => 0, 1 => 1, 2 => q - 1, 3 => q, 4 => q + 1, 5 => 2 * q - 1, 6 => 2 * q, 7 => 1u64 << 63, 8 => u64::MAX,
        9 => u64::MAX - 1, 10 => (1u64 << 63) - 1, 11 => r % q, 12 => r % (2 * q),
        _ => r,
    }
}

/// limb with carry-provoking patterns
pub fn limb() -> BoxedStrategy<u64> {
    prop_oneof![
        3 => any::<u64>(),
        1 => Just(0u64),
        2 => Just(u64::MAX),
        1 => Just(1u64 << 63),
        1 => Just(1u64),
        1 => Just(u64::MAX - 1),
        1 => (0u32..64).prop_map(|k| 1u64 << k),
        1 => (0u32..64).prop_map(|k| u64::MAX >> k),
    ].boxed()
}

/// multi-word value of exactly `len` limbs (may have zero top limbs)
pub fn limbs(len: usize) -> BoxedStrategy<Vec<u64>> {
    (proptest::collection::vec(limb(), len), 0u8..8).prop_map(|(v, mode)| limbs_mode(v, mode)).boxed()
}

/// does any word have its top bit set / is all-ones (carry-prone)?
pub fn carry_prone(vs: &[&[u64]]) -> bool {
    vs.iter().any(|v| v.iter().any(|&l| l >> 63 == 1))
}

/// A prime p ≡ 1 (mod 2N) with about `bits` bits (the smallest bit size >= `bits` for which one exists),
/// chosen by `sel` among the few largest / smallest primes of that size. Deterministic.
pub fn ntt_prime(logn: u32, bits: u32, sel: u8) -> u64 {
    let two_n = 2u64 << logn;
    let mut b = bits.max(logn + 2).max(2);
    if sel & 0x40 != 0 {
        // a prime from the interior of the bit range (not adjacent to a power of two): the first one below a point chosen by sel
        let lo = 1u64 << (b - 1); let hi = (1u64 << b) - 1;
        let start = lo + ((hi - lo) as u128 * ((sel & 0x3f) as u128 + 1) / 65) as u64;
        let mut v = start / two_n * two_n + 1;
        if v > start { v = v.saturating_sub(two_n); }
        let mut steps = 0;
        while v >= lo && v > 1 && steps < 20_000 { if refmath::is_prime(v) { return v; } if v < two_n { break; } v -= two_n; steps += 1; }
    }
    loop {
        assert!(b <= 62, "no NTT prime found");
        let k = (sel % 4) as usize;
        let list = if sel & 0x80 == 0 { refmath::primes_desc(two_n, b, k + 1) } else { refmath::primes_asc(two_n, b, k + 1) };
        if !list.is_empty() { return list[k.min(list.len() - 1)]; }
        b += 1;
    }
}

/// `count` distinct NTT primes for degree 2^logn with the given bit sizes (in that order).
pub fn ntt_primes_distinct(logn: u32, bits: &[u32], sels: &[u8]) -> Vec<u64> {
    let mut out: Vec<u64> = vec![];
    for (i, &b) in bits.iter().enumerate() {
        let mut sel = sels[i % sels.len().max(1)];
        let mut p = ntt_prime(logn, b, sel);
        let mut tries = 0;
        while out.contains(&p) {
            // walk through the candidates of this size, then bump the size
            tries += 1;
            sel = sel.wrapping_add(1);
            p = if tries < 4 { ntt_prime(logn, b, sel) } else {
                let two_n = 2u64 << logn;
                let list = refmath::primes_desc(two_n, b.max(logn + 2), out.len() + 2);
                match list.into_iter().find(|x| !out.contains(x)) { Some(x) => x, None => ntt_prime(logn, b + 1 + (tries as u32 - 4), sel) }
            };
        }
        out.push(p);
    }
    out
}
