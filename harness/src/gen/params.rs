//! Parameter-set generators and the per-case "world" (context + keys + tools).
//! Everything is constructed, never filtered: a generated ParamSet is always accepted by HeContext
//! (this is itself asserted — a rejected set is reported as a harness problem, not a violation).
use crate::bigint::BigU;
use crate::gen::words::*;
use crate::refmath as rm;
use heathcliff::*;
use proptest::prelude::*;
use serde::{Deserialize, Serialize};
use std::sync::Arc;

#[derive(Clone, Copy, Debug, PartialEq, Eq, Serialize, Deserialize)]
pub enum Scheme { BFV, BGV, CKKS }
impl Scheme {
    pub fn to_lib(self) -> SchemeType { match self { Scheme::BFV => SchemeType::BFV, Scheme::BGV => SchemeType::BGV, Scheme::CKKS => SchemeType::CKKS } }
    pub fn is_exact(self) -> bool { self != Scheme::CKKS }
}

#[derive(Clone, Debug, Serialize, Deserialize)]
pub struct ParamSet {
    pub scheme: Scheme,
    pub logn: u32,
    /// coefficient moduli in the order given to the library (the last one is the special prime unless `special_flag`)
    pub moduli: Vec<u64>,
    /// plain modulus (0 for CKKS)
    pub t: u64,
    pub expand_chain: bool,
    /// EncryptionParameters::set_use_special_prime_for_encryption
    pub special_flag: bool,
    /// per-case entropy for the library's randomness (hook H2)
    pub entropy: u64,
}

#[derive(Clone, Copy, Debug, PartialEq, Eq)]
pub enum TKind { Any, BatchingOnly }

#[derive(Clone, Debug)]
pub struct ParamCfg {
    pub schemes: Vec<Scheme>,
    pub logn_lo: u32, pub logn_hi: u32,
    /// weight the small degrees: probability (out of 16) of using logn in [logn_lo, logn_small]
    pub logn_small: u32,
    pub k_lo: usize, pub k_hi: usize,
    pub bits_lo: u32, pub bits_hi: u32,
    pub t_kind: TKind,
    pub t_bits_lo: u32, pub t_bits_hi: u32,
    /// force at least two moduli and no special flag (so that key switching is available)
    pub need_keyswitching: bool,
    pub allow_special_flag: bool,
    pub always_expand: bool,
}

impl ParamCfg {
    pub fn strategy(&self) -> BoxedStrategy<ParamSet> {
        let cfg = self.clone();
        let c2 = self.clone();
        (0usize..cfg.schemes.len(), 0u8..16, cfg.logn_lo..=cfg.logn_hi, cfg.logn_lo..=cfg.logn_small.max(cfg.logn_lo),
         proptest::collection::vec((cfg.bits_lo..=cfg.bits_hi, any::<u8>()), cfg.k_lo..=cfg.k_hi),
         (any::<u8>(), cfg.t_bits_lo..=cfg.t_bits_hi, any::<u64>()), any::<[bool; 2]>(), any::<u64>(), 0u8..4)
            .prop_map(move |(si, w, logn_any, logn_small, specs, (tsel, tbits, traw), flags, entropy, order)| {
                let cfg = &c2;
                let scheme = cfg.schemes[si];
                let logn = if w < 13 { logn_small } else { logn_any };
                let mut bits: Vec<u32> = specs.iter().map(|s| s.0.max(logn + 2)).collect();
                match order { 0 => bits.sort(), 1 => { bits.sort(); bits.reverse(); } _ => {} }
                let sels: Vec<u8> = specs.iter().map(|s| s.1).collect();
                let moduli = ntt_primes_distinct(logn, &bits, &sels);
                let special_flag = cfg.allow_special_flag && !cfg.need_keyswitching && flags[0] && entropy % 3 == 0;
                // t is normally chosen below the first data level's modulus (all primes but the special one); in ~6% of
                // the sets only below the full product, which exercises the 'next level invalid' branch of chain building
                let data_primes = if moduli.len() >= 2 && !special_flag && (cfg.need_keyswitching || traw % 16 != 0) { &moduli[..moduli.len() - 1] } else { &moduli[..] };
                let t = if scheme == Scheme::CKKS { 0 } else { pick_plain_modulus_for(cfg.t_kind, logn, tsel, tbits, traw, &moduli, data_primes) };
                ParamSet { scheme, logn, moduli, t, expand_chain: cfg.always_expand || flags[1], special_flag, entropy }
            }).boxed()
    }
}

/// plain modulus of the requested kind, coprime to every q_i and smaller than Q (admissible by construction)
pub fn pick_plain_modulus(kind: TKind, logn: u32, sel: u8, bits: u32, raw: u64, moduli: &[u64]) -> u64 {
    pick_plain_modulus_for(kind, logn, sel, bits, raw, moduli, moduli)
}
/// `moduli`: all primes (t must be coprime to each); `bound`: primes whose product t must stay below
pub fn pick_plain_modulus_for(kind: TKind, logn: u32, sel: u8, bits: u32, raw: u64, moduli: &[u64], bound: &[u64]) -> u64 {
    let q = BigU::product(bound);
    let qbits = q.bits() as u32;
    // t must be < Q: keep at least one bit of room
    let maxbits = bits.min(qbits.saturating_sub(1)).min(60).max(2);
    let coprime = |t: u64| t >= 2 && moduli.iter().all(|&m| rm::gcd(m, t) == 1) && BigU::from_u64(t) < q;
    let batching = |b: u32| -> Option<u64> {
        // batching prime = 1 mod 2N, distinct from every q_i
        let two_n = 2u64 << logn;
        for bb in b.max(logn + 2)..=60.min(qbits.saturating_sub(1)).max(b.max(logn + 2)) {
            let mut cands = if sel & 0x40 == 0 { rm::primes_desc(two_n, bb, 6) } else { rm::primes_asc(two_n, bb, 6) };
            cands.retain(|p| coprime(*p));
            if !cands.is_empty() { return Some(cands[(sel as usize >> 3) % cands.len()]); }
        }
        None
    };
    let kind_sel = if kind == TKind::BatchingOnly { 0 } else { sel % 8 };
    let cand = match kind_sel {
        0 | 1 | 2 => batching(maxbits),
        3 => Some(1u64 << (maxbits - 1).max(1)),                       // power of two
        4 => Some(((1u64 << (maxbits - 1)) + raw % (1u64 << (maxbits - 1))) | 1), // odd, usually composite
        5 => { // larger than some q_i (no fast plain lift): just above the smallest modulus
            let mn = *moduli.iter().min().unwrap();
            Some(mn + 1 + raw % 5)
        }
        6 => Some(2 + raw % 2),                                        // tiny: 2 or 3
        _ => { // just below Q when Q is small, else a large value of maxbits bits
            match q.to_u64() { Some(qv) if qv <= (1u64 << 60) => Some(qv.saturating_sub(1 + raw % 3).max(2)), _ => Some(((1u64 << maxbits) - 1).saturating_sub(raw % 64).max(2)) }
        }
    };
    let mut t = cand.unwrap_or(2);
    if t >> 60 != 0 { t = (1u64 << 60) - 1; }
    // repair towards admissibility deterministically
    let mut guard = 0;
    while !coprime(t) {
        if t > 2 { t -= 1; } else { t = 2; break; }
        guard += 1;
        if guard > 200 { t = 2; break; }
    }
    if !coprime(t) {
        // Q is tiny (e.g. a single 3-bit prime): fall back to the smallest admissible value
        t = (2..64).find(|&c| coprime(c)).unwrap_or(2);
    }
    if kind == TKind::BatchingOnly && !(rm::is_prime(t) && (t - 1) % (2u64 << logn) == 0) {
        // no batching prime fits below Q; caller must cope (checked by World::batching)
    }
    t
}

/// One level of the modulus chain as the oracle sees it.
#[derive(Clone, Debug)]
pub struct Level { pub parms_id: ParmsID, pub moduli: Vec<u64>, pub q: BigU, pub qbits: usize }

pub struct World {
    pub ps: ParamSet,
    pub n: usize,
    pub context: Arc<HeContext>,
    pub keygen: KeyGenerator,
    pub sk: SecretKey,
    pub encryptor: Encryptor,
    pub decryptor: Decryptor,
    pub evaluator: Evaluator,
    /// data levels from first (index 0) down to last
    pub levels: Vec<Level>,
    pub key_moduli: Vec<u64>,
    pub batching: bool,
}

pub fn build_params(ps: &ParamSet) -> EncryptionParameters {
    let moduli: Vec<Modulus> = ps.moduli.iter().map(|m| Modulus::new(*m)).collect();
    let mut p = EncryptionParameters::new(ps.scheme.to_lib())
        .set_poly_modulus_degree(1usize << ps.logn)
        .set_coeff_modulus(&moduli);
    if ps.scheme != Scheme::CKKS { p = p.set_plain_modulus_u64(ps.t); }
    p.set_use_special_prime_for_encryption(ps.special_flag)
}

impl World {
    /// Build context, keys and tools. The per-case entropy override (H2) is installed on this thread.
    pub fn new(ps: &ParamSet) -> Result<World, String> {
        heathcliff::verif_hooks::set_entropy_override(Some(ps.entropy));
        let parms = build_params(ps);
        let context = HeContext::new(parms, ps.expand_chain, SecurityLevel::None);
        if !context.parameters_set() {
            return Err(format!("generated parameter set rejected: {:?} ({:?})", context.key_context_data().map(|c| format!("{:?}", c.qualifiers().parameter_error)), ps));
        }
        let keygen = KeyGenerator::new(context.clone());
        let sk = keygen.secret_key().clone();
        let pk = keygen.create_public_key(false);
        let encryptor = Encryptor::new(context.clone()).set_public_key(pk).set_secret_key(sk.clone());
        let decryptor = Decryptor::new(context.clone(), sk.clone());
        let evaluator = Evaluator::new(context.clone());
        let mut levels = vec![];
        let mut cd = context.first_context_data();
        while let Some(c) = cd {
            let moduli: Vec<u64> = c.parms().coeff_modulus().iter().map(|m| m.value()).collect();
            let q = BigU::product(&moduli);
            levels.push(Level { parms_id: *c.parms_id(), qbits: q.bits(), q, moduli });
            cd = c.next_context_data();
        }
        let key_moduli = context.key_context_data().unwrap().parms().coeff_modulus().iter().map(|m| m.value()).collect();
        let batching = ps.scheme != Scheme::CKKS && context.first_context_data().unwrap().qualifiers().using_batching;
        Ok(World { ps: ps.clone(), n: 1usize << ps.logn, context, keygen, sk, encryptor, decryptor, evaluator, levels, key_moduli, batching })
    }
    pub fn t(&self) -> u64 { self.ps.t }
    pub fn level_index(&self, id: &ParmsID) -> Option<usize> { self.levels.iter().position(|l| &l.parms_id == id) }
    pub fn has_special_prime(&self) -> bool { self.context.using_keyswitching() }
    /// the special prime P (last key-level modulus) when key switching is available
    pub fn special_prime(&self) -> u64 { *self.key_moduli.last().unwrap() }
    /// secret key in coefficient form as signed ternary values (oracle-side; uses the naive inverse NTT for small N)
    pub fn secret_coeffs(&self) -> Vec<i8> {
        let q0 = self.key_moduli[0];
        let mut comp = self.sk.data()[..self.n].to_vec();
        let cd = self.context.key_context_data().unwrap();
        cd.small_ntt_tables()[0].inverse_ntt_negacyclic_harvey(&mut comp);
        comp.iter().map(|&c| if c == 0 { 0 } else if c == 1 { 1 } else if c == q0 - 1 { -1 } else { 2 }).collect()
    }
}

pub fn log2_big(x: &BigU) -> f64 {
    if x.is_zero() { return f64::NEG_INFINITY; }
    let b = x.bits();
    if b <= 1000 { x.to_f64().log2() } else { let s = b - 900; x.shr(s).to_f64().log2() + s as f64 }
}
