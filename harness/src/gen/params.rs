//! Parameter-set generators (filled in with the scheme-level properties).
