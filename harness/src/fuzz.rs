//! Entry points for the coverage-guided fuzz targets (engine E3, /verif/fuzz) and for replaying their inputs.
//! The fuzzer's bytes are decoded by a hand-written decoder that draws the same primitive choices as the
//! sub-check's proptest strategy and maps them with the *same* mapping function, then judged by the same oracle;
//! a failing input is also written out as the JSON case, which `./check <ID> --replay` re-executes without the fuzzer.
//! (proptest's own pass-through RNG cannot be used for this: see DESIGN.md 10.6.)
use crate::runner::*;
use std::cell::RefCell;

/// Minimal data provider over the fuzzer's bytes (zeros once exhausted).
pub struct Src<'a> { d: &'a [u8], p: usize }
impl<'a> Src<'a> {
    pub fn new(d: &'a [u8]) -> Self { Src { d, p: 0 } }
    pub fn u8(&mut self) -> u8 { let v = self.d.get(self.p).copied().unwrap_or(0); self.p += 1; v }
    pub fn u16(&mut self) -> u16 { u16::from_le_bytes([self.u8(), self.u8()]) }
    pub fn u32(&mut self) -> u32 { u32::from_le_bytes([self.u8(), self.u8(), self.u8(), self.u8()]) }
    pub fn u64(&mut self) -> u64 { let mut b = [0u8; 8]; for x in b.iter_mut() { *x = self.u8(); } u64::from_le_bytes(b) }
    pub fn bool(&mut self) -> bool { self.u8() & 1 == 1 }
    /// value in [0, n)
    pub fn below(&mut self, n: u64) -> u64 { if n <= 1 { 0 } else if n <= 256 { self.u8() as u64 % n } else if n <= 65536 { self.u16() as u64 % n } else { self.u64() % n } }
    /// value in [lo, hi]
    pub fn incl(&mut self, lo: u64, hi: u64) -> u64 { lo + self.below(hi - lo + 1) }
    pub fn exhausted(&self) -> bool { self.p >= self.d.len() }
}

thread_local! { static DEF: RefCell<Option<(String, PropertyDef)>> = const { RefCell::new(None) }; }

fn with_sub<T>(property: &str, sub: &str, f: impl FnOnce(&Sub) -> T) -> T {
    DEF.with(|d| {
        let mut d = d.borrow_mut();
        if d.as_ref().map(|x| x.0 != property).unwrap_or(true) {
            install_panic_hook();
            *d = Some((property.to_string(), crate::props::get(property).unwrap_or_else(|| panic!("unknown property {property}"))));
        }
        let def = &d.as_ref().unwrap().1;
        let s = def.subs.iter().find(|s| s.name == sub).unwrap_or_else(|| panic!("unknown sub-check {sub}"));
        f(s)
    })
}

/// decode + judge; Some((case, message, key)) for a violation
pub fn judge_bytes(property: &str, sub: &str, data: &[u8]) -> Option<(serde_json::Value, String, Option<String>)> {
    with_sub(property, sub, |s| {
        let fz = s.fuzz.as_ref().expect("sub-check has no generator to fuzz");
        match fz(data, Tier::Quick) { Some((case, Verdict::Fail { msg, key })) => Some((case, msg, key)), _ => None }
    })
}

/// fuzz-target body: abort (so that libFuzzer keeps the input) on a violation that is not a listed known finding
pub fn run(property: &str, sub: &str, data: &[u8]) {
    if let Some((case, msg, key)) = judge_bytes(property, sub, data) {
        let known = load_known(&std::env::var("VERIF_ROOT").unwrap_or_else(|_| "/verif".into()));
        if let Some(k) = &key { if known.iter().any(|f| f.status == "known" && f.property == property && &f.key == k) { return; } }
        eprintln!("hv-fuzz: property {property} sub {sub}: {msg}\nhv-fuzz-case: {}", serde_json::to_string(&case).unwrap_or_default());
        std::process::abort();
    }
}
