//! C13 — parameter validation is sound; the modulus chain is well-formed and reproducible.
use crate::bigint::BigU;
use crate::gen::*;
use crate::refmath as rm;
use crate::runner::*;
use heathcliff::*;
use proptest::prelude::*;
use serde::{Deserialize, Serialize};
use std::collections::HashMap;
use std::sync::Arc;

#[derive(Clone, Debug, Serialize, Deserialize)]
pub struct ParmCase {
    /// 0 None, 1 BFV, 2 CKKS, 3 BGV
    pub scheme: u8,
    pub degree: usize,
    pub moduli: Vec<u64>,
    pub t: u64,
    /// 0 None, 128, 192, 256
    pub sec: u16,
    pub expand: bool,
    pub special: bool,
    pub order: u8,
}

fn scheme_of(s: u8) -> SchemeType { match s { 1 => SchemeType::BFV, 2 => SchemeType::CKKS, 3 => SchemeType::BGV, _ => SchemeType::None } }
fn sec_of(s: u16) -> SecurityLevel { match s { 128 => SecurityLevel::Tc128, 192 => SecurityLevel::Tc192, 256 => SecurityLevel::Tc256, _ => SecurityLevel::None } }
fn max_bits(n: usize, sec: u16) -> usize {
    let row = |a: [usize; 6]| match n { 1024 => a[0], 2048 => a[1], 4096 => a[2], 8192 => a[3], 16384 => a[4], 32768 => a[5], _ => 0 };
    match sec { 128 => row([27, 54, 109, 218, 438, 881]), 192 => row([19, 37, 75, 152, 305, 611]), 256 => row([14, 29, 58, 118, 237, 476]), _ => usize::MAX }
}

/// build through the public builder; Err if the builder itself refuses (not constructible -> outside the property)
fn build(c: &ParmCase) -> Result<EncryptionParameters, String> {
    catch(|| {
        let moduli: Vec<Modulus> = c.moduli.iter().map(|m| Modulus::new(*m)).collect();
        let scheme = scheme_of(c.scheme);
        let mut p = EncryptionParameters::new(scheme);
        // different setter orders must lead to the same parameters
        let set_t = |p: EncryptionParameters| if matches!(scheme, SchemeType::BFV | SchemeType::BGV) || c.t == 0 { p.set_plain_modulus_u64(c.t) } else { p.set_plain_modulus_u64(c.t) };
        match c.order % 3 {
            0 => { p = p.set_poly_modulus_degree(c.degree); if !moduli.is_empty() { p = p.set_coeff_modulus(&moduli); } p = set_t(p); }
            1 => { p = set_t(p); if !moduli.is_empty() { p = p.set_coeff_modulus(&moduli); } p = p.set_poly_modulus_degree(c.degree); }
            _ => { if !moduli.is_empty() { p = p.set_coeff_modulus(&moduli); } p = p.set_poly_modulus_degree(c.degree); p = set_t(p); }
        }
        p.set_use_special_prime_for_encryption(c.special)
    })
}

/// the mathematical preconditions of one level, evaluated independently of the library
fn level_ok(scheme: SchemeType, n: usize, moduli: &[u64], t: u64, sec: u16) -> Result<(), String> {
    if !matches!(scheme, SchemeType::BFV | SchemeType::BGV | SchemeType::CKKS) { return Err("scheme is not BFV/BGV/CKKS".into()); }
    if moduli.is_empty() || moduli.len() > 64 { return Err(format!("{} moduli", moduli.len())); }
    if !(2..=131072).contains(&n) || !n.is_power_of_two() { return Err(format!("degree {n} not a power of two in range")); }
    for &q in moduli {
        let bits = 64 - q.leading_zeros();
        if !(2..=60).contains(&bits) { return Err(format!("modulus {q} has {bits} bits")); }
        if q % (2 * n as u64) != 1 { return Err(format!("modulus {q} is not 1 mod 2N")); }
        // "coeff_modulus's primes": a composite value has no well-defined minimal primitive root (fixed in /repo: NTT tables refuse it)
        if !rm::is_prime(q) { return Err(format!("modulus {q} is composite")); }
    }
    for i in 0..moduli.len() { for j in 0..i { if rm::gcd(moduli[i], moduli[j]) != 1 { return Err(format!("moduli {} and {} not coprime", moduli[i], moduli[j])); } } }
    let q = BigU::product(moduli);
    if sec != 0 && q.bits() > max_bits(n, sec) { return Err(format!("total {} bits exceeds the {}-bit security table for N={n}", q.bits(), sec)); }
    match scheme {
        SchemeType::CKKS => if t != 0 { return Err("CKKS with non-zero plain modulus".into()); },
        _ => {
            let tb = 64 - t.leading_zeros();
            if !(2..=60).contains(&tb) { return Err(format!("plain modulus {t} has {tb} bits")); }
            if moduli.iter().any(|&m| rm::gcd(m, t) != 1) { return Err("plain modulus not coprime to a coefficient modulus".into()); }
            if BigU::from_u64(t) >= q { return Err("plain modulus not below the coefficient modulus".into()); }
        }
    }
    Ok(())
}

fn pool_value(sel: u8, raw: u64, logn: u32) -> u64 {
    let two_n = 2u64 << logn;
    match sel % 16 {
        0..=6 => ntt_prime(logn, 2 + (raw % 59) as u32, (raw >> 8) as u8),                       // NTT-friendly prime, 2..60 bits
        7 => { let mut v = (raw % (1u64 << 40)) | 1; while !rm::is_prime(v) || v % two_n == 1 { v += 2; } v }   // prime, not NTT friendly
        8 => { let a = ntt_prime(logn, 10 + (raw % 15) as u32, 0); let b = ntt_prime(logn, 10 + (raw >> 8) as u32 % 15, 1); a * b } // composite = 1 mod 2N
        9 => 2 + 2 * (raw % (1 << 20)),                                                           // even
        10 => ntt_prime(logn, 61, (raw >> 3) as u8),                                              // 61-bit (too large for users)
        11 => 2, 12 => 3,
        13 => (raw % ((1u64 << 61) - 2)) + 2,                                                     // arbitrary
        _ => ntt_prime(logn, 30 + (raw % 31) as u32, (raw >> 8) as u8),
    }
}

fn parm_case(tier: Tier) -> BoxedStrategy<ParmCase> {
    let _ = tier;
    (0u8..=3, 0u8..32, proptest::collection::vec((any::<u8>(), any::<u64>()), 0..=8), (any::<u8>(), any::<u64>()), 0u8..8, any::<[bool; 2]>(), 0u8..3, any::<u8>(), 0u8..40)
        .prop_map(|(scheme_raw, dsel, specs, (tsel, traw), secsel, flags, order, dupsel, manysel)| parm_from_raw(scheme_raw, dsel, specs, (tsel, traw), secsel, flags, order, dupsel, manysel)).boxed()
}
/// fuzz decoder (engine E3): the same primitive choices drawn from fuzzer bytes
fn parm_decode(src: &mut crate::fuzz::Src) -> Option<ParmCase> {
    let scheme_raw = src.below(4) as u8; let dsel = src.below(32) as u8; let ns = src.below(9) as usize;
    let specs: Vec<(u8, u64)> = (0..ns).map(|_| (src.u8(), src.u64())).collect();
    let t = (src.u8(), src.u64()); let secsel = src.below(8) as u8; let flags = [src.bool(), src.bool()]; let order = src.below(3) as u8; let dupsel = src.u8(); let manysel = src.below(40) as u8;
    Some(parm_from_raw(scheme_raw, dsel, specs, t, secsel, flags, order, dupsel, manysel))
}
#[allow(clippy::too_many_arguments)]
fn parm_from_raw(scheme_raw: u8, dsel: u8, specs: Vec<(u8, u64)>, (tsel, traw): (u8, u64), secsel: u8, flags: [bool; 2], order: u8, dupsel: u8, manysel: u8) -> ParmCase {
        {
            // bias towards acceptable sets: real schemes, power-of-two degrees
            let scheme = if scheme_raw == 0 && dsel % 8 != 0 { 1 + dsel % 3 } else { scheme_raw };
            let standard = secsel >= 5;
            let logn: u32 = if standard { 10 + (dsel % 6) as u32 } else { 1 + (dsel % 9) as u32 };
            let mut degree: usize = 1usize << logn;
            if !standard { match dsel { 27 => degree = 0, 28 => degree = 1, 29 => degree = 3, 30 => degree = 6, 31 => degree = 1 << 18, 26 => degree = 1 << 17, _ => {} } }
            // an out-of-range degree (2^18) gets otherwise flawless parameters so that only the degree rung can reject it
            let lg = if degree.is_power_of_two() && degree >= 2 && degree <= 1 << 18 { degree.trailing_zeros() } else { 3 };
            let mut moduli: Vec<u64> = specs.iter().map(|(s, r)| if degree == 1 << 18 { ntt_prime(18, 30 + (*r % 30) as u32, *s) } else { pool_value(*s, *r, lg) }).collect();
            if degree == 1 << 18 { moduli.truncate(2); moduli.dedup(); }
            if standard { // keep within the table most of the time: few small primes
                let budget = max_bits(degree, [128u16, 192, 256][(secsel % 3) as usize]);
                let mut acc = 0usize; moduli.retain(|m| { let b = 64 - m.leading_zeros() as usize; if acc + b <= budget + 8 { acc += b; true } else { false } });
            }
            if dupsel % 11 == 0 && moduli.len() >= 2 { let x = moduli[0]; *moduli.last_mut().unwrap() = x; }  // duplicate
            if manysel == 0 { let base = moduli.clone(); while moduli.len() < 64 && !base.is_empty() { moduli.push(ntt_prime(lg, 20 + (moduli.len() as u32 % 40), moduli.len() as u8)); } } // up to 64 entries
            moduli.retain(|m| *m >= 2 && *m >> 61 == 0);
            let q = BigU::product(&moduli);
            let t = if scheme == 2 { if tsel % 16 == 0 { 65537 } else { 0 } } else { match tsel % 12 {
                0 => 0, 1 => 2, 2 => 1u64 << (1 + traw % 59), 3 => moduli.first().map_or(3, |m| m.wrapping_mul(1 + traw % 3) % (1u64 << 60)).max(2),
                4 => (1u64 << 60) + 1 + (traw % (1u64 << 59)) * 2, 5 => q.to_u64().map_or((1u64 << 60) - 1, |v| v.saturating_add(traw % 3)).min((1u64 << 61) - 1).max(2),
                6 | 7 => ntt_prime(lg, 4 + (traw % 40) as u32, (traw >> 8) as u8), _ => 2 + traw % (1u64 << (2 + traw % 30)) } };
            let sec = if standard { [128u16, 192, 256][(secsel % 3) as usize] } else { 0 };
            ParmCase { scheme, degree, moduli, t, sec, expand: flags[0], special: flags[1], order }
        }
}

/// small universe, exhaustive (thorough tier): N in {2,4,8}, moduli 2..64 (lists of length <= 2), t <= 40, all schemes
fn universe(tier: Tier) -> Vec<ParmCase> {
    let mut out = vec![];
    let (maxq, maxt) = tier.pick((24u64, 12u64), (64u64, 40u64));
    for scheme in 1u8..=3 { for degree in [2usize, 4, 8] {
        for q1 in 2..=maxq { for q2 in 0..=maxq { if q2 == 1 { continue; }
            let moduli = if q2 == 0 { vec![q1] } else { vec![q1, q2] };
            let ts: Vec<u64> = if scheme == 2 { vec![0] } else { (2..=maxt).step_by(if tier == Tier::Quick { 3 } else { 1 }).collect() };
            for t in ts { out.push(ParmCase { scheme, degree, moduli: moduli.clone(), t, sec: 0, expand: true, special: (q1 + q2) % 5 == 0, order: ((q1 + t) % 3) as u8 }); }
        } }
    } }
    out
}

fn walk(ctx: &Arc<HeContext>) -> Vec<Arc<ContextData>> {
    let mut v = vec![]; let mut cd = ctx.key_context_data();
    while let Some(c) = cd { cd = c.next_context_data(); v.push(c); if v.len() > 70 { break; } }
    v
}

static IDS: std::sync::Mutex<Option<HashMap<ParmsID, String>>> = std::sync::Mutex::new(None);

fn oracle(c: &ParmCase) -> Verdict {
    let parms = match build(c) { Ok(p) => p, Err(_) => return Verdict::Pass(Info::new(false).label("builder refused (not constructible)")) };
    let scheme = scheme_of(c.scheme);
    let ctx = match catch(|| HeContext::new(parms.clone(), c.expand, sec_of(c.sec))) { Ok(x) => x, Err(p) => return fail_key("C13/new-panics", format!("HeContext::new panicked on a constructible parameter object: {p}")) };
    let key_cd = match ctx.key_context_data() { Some(k) => k, None => return fail("no key context data") };
    let set = ctx.parameters_set();
    let err = format!("{:?}", ctx.first_context_data().map(|c| format!("{:?}", c.qualifiers().parameter_error)).unwrap_or_default());
    let n = c.degree;
    if !set {
        let e = format!("{:?}", key_cd.qualifiers().parameter_error);
        check!(e != "Success" && e != "None", "parameters not set but the reported error is {e}");
        // grounded completeness smoke test is done in the generated-moduli sub-check, not here
        return Verdict::Pass(Info::new(!e.contains("InvalidScheme") && !e.contains("InvalidCoeffModulusSize")).label(format!("rejected:{e}")));
    }
    // ---------------- accepted: every level must satisfy the mathematical preconditions
    let chain = walk(&ctx);
    let mut evals = 1u64;
    for (i, cd) in chain.iter().enumerate() {
        let m: Vec<u64> = cd.parms().coeff_modulus().iter().map(|x| x.value()).collect();
        // the key level is only required to be valid when it is also the first data level
        if i == 0 && ctx.key_parms_id() != ctx.first_parms_id() {
            // it still is validated by the library (parameters_set of key level)
        }
        if let Err(why) = level_ok(scheme, n, &m, c.t, c.sec) { return fail_key("C13/unsound-accept", format!("context reports parameters_set but level {i} (chain_index {}) violates a precondition: {why} (moduli {m:?}, t={}, N={n}, sec {})", cd.chain_index(), c.t, c.sec)); }
        check!(cd.qualifiers().parameters_set(), "level {i} in the chain does not report parameters_set");
    }
    // ---------------- chain structure
    let k = c.moduli.len();
    check!(chain[0].parms_id() == ctx.key_parms_id(), "walk does not start at the key level");
    check!(chain.last().unwrap().parms_id() == ctx.last_parms_id(), "walk along next does not end at last_parms_id");
    check!(chain.last().unwrap().chain_index() == 0, "last level has chain_index {}", chain.last().unwrap().chain_index());
    for i in 0..chain.len() {
        check!(chain[i].chain_index() == chain.len() - 1 - i, "chain_index not strictly decreasing by one (position {i} has {})", chain[i].chain_index());
        let m: Vec<u64> = chain[i].parms().coeff_modulus().iter().map(|x| x.value()).collect();
        check!(m[..] == c.moduli[..m.len()] && m.len() == k - i, "level {i} moduli are not the prefix of length {} of the key-level moduli", k - i);
        check!(chain[i].parms().poly_modulus_degree() == n && chain[i].parms().plain_modulus().value() == c.t, "level {i} degree / plain modulus differ from the key level");
        if i > 0 { let prev = chain[i].prev_context_data(); check!(prev.map_or(false, |p| p.parms_id() == chain[i - 1].parms_id()), "prev link of level {i} is not the inverse of next"); }
        else { check!(chain[0].prev_context_data().is_none(), "key level has a prev link"); }
        check!(ctx.get_context_data(chain[i].parms_id()).map_or(false, |x| Arc::ptr_eq(&x, &chain[i])), "map lookup of level {i} inconsistent");
    }
    let first_is_key = ctx.first_parms_id() == ctx.key_parms_id();
    // first = key iff one prime, or the special-prime flag, or the next level is invalid
    let next_valid = k >= 2 && level_ok(scheme, n, &c.moduli[..k - 1], c.t, c.sec).is_ok();
    if k == 1 || c.special { check!(first_is_key, "first level differs from the key level although {}", if k == 1 { "there is one prime" } else { "the special-prime flag is set" }); }
    else if !first_is_key { check!(chain.len() >= 2 && ctx.first_parms_id() == chain[1].parms_id(), "first level is not the successor of the key level"); }
    else { check!(!next_valid, "first level equals the key level although the next level satisfies every precondition (moduli {:?}, t={})", &c.moduli[..k - 1], c.t); }
    check_eq!(ctx.using_keyswitching(), !first_is_key, "using_keyswitching");
    if !c.expand { check!(chain.len() <= 2 && ctx.last_parms_id() == ctx.first_parms_id(), "chain expanded although expand_mod_chain is false"); }
    // ---------------- precomputed constants
    for cd in chain.iter() {
        let m: Vec<u64> = cd.parms().coeff_modulus().iter().map(|x| x.value()).collect();
        let kk = m.len(); let q = BigU::product(&m);
        check!(cd.total_coeff_modulus()[..] == q.to_limbs(kk)[..], "total_coeff_modulus wrong at chain_index {}", cd.chain_index());
        check_eq!(cd.total_coeff_modulus_bit_count(), q.bits(), "total_coeff_modulus_bit_count");
        let ql = cd.qualifiers();
        let desc = m.windows(2).all(|w| w[0] > w[1]);
        check_eq!(ql.using_descending_modulus_chain, desc, "using_descending_modulus_chain for {m:?}");
        check!(ql.using_fft && ql.using_ntt, "accepted level without fft/ntt flags");
        if scheme != SchemeType::CKKS {
            let t = c.t; let tb = BigU::from_u64(t);
            let (dq, dr) = q.divrem(&tb);
            for (j, op) in cd.coeff_div_plain_modulus().iter().enumerate() {
                check_eq!(op.operand, dq.rem_u64(m[j]), "coeff_div_plain_modulus[{j}] operand");
                check_eq!(op.quotient, (((op.operand as u128) << 64) / m[j] as u128) as u64, "coeff_div_plain_modulus[{j}] quotient");
            }
            check_eq!(cd.coeff_modulus_mod_plain_modulus(), dr.to_u64().unwrap(), "Q mod t");
            check_eq!(cd.plain_upper_half_threshold(), (t + 1) / 2, "plain_upper_half_threshold");
            let fast = m.iter().all(|&x| x > t);
            check_eq!(ql.using_fast_plain_lift, fast, "using_fast_plain_lift");
            if fast { for j in 0..kk { check_eq!(cd.plain_upper_half_increment()[j], m[j] - t, "plain_upper_half_increment[{j}] (fast lift)"); } }
            else { check!(cd.plain_upper_half_increment()[..] == q.sub(&tb).to_limbs(kk)[..], "plain_upper_half_increment (Q - t)"); }
            let batch_expected = rm::is_prime(t) && (t - 1) % (2 * n as u64) == 0;
            if batch_expected { check!(ql.using_batching, "batching not enabled for prime t = 1 mod 2N"); }
            if ql.using_batching { check!((t - 1) % (2 * n as u64) == 0, "batching enabled although t is not 1 mod 2N"); }
        } else {
            check!(cd.upper_half_threshold()[..] == q.add_u64(1).shr(1).to_limbs(kk)[..], "CKKS upper_half_threshold (Q+1)/2");
            check_eq!(cd.plain_upper_half_threshold(), 1u64 << 63, "CKKS plain_upper_half_threshold");
            for j in 0..kk {
                // 2^64 mod q_j, as the increment for negative 64-bit plaintext coefficients ... stored as -(2^64) mod q? it is (2^63 * (q-2)) mod q = -2^64 mod q
                let want = ((m[j] as u128 - ((1u128 << 64) % m[j] as u128)) % m[j] as u128) as u64;
                check_eq!(cd.plain_upper_half_increment()[j], want, "CKKS plain_upper_half_increment[{j}] (= -2^64 mod q_j)");
            }
            check!(ql.using_batching && !ql.using_fast_plain_lift, "CKKS qualifier flags");
        }
        evals += 1;
    }
    // ---------------- identifiers: independently built contexts agree level by level; collision freedom over the run's universe
    let alt = ParmCase { order: c.order + 1, ..c.clone() };
    let p2 = match build(&alt) { Ok(p) => p, Err(e) => return fail(format!("rebuilding with another setter order failed: {e}")) };
    check!(p2.parms_id() == parms.parms_id(), "parameter id depends on the order of the builder calls");
    let ctx2 = HeContext::new(p2, c.expand, sec_of(c.sec));
    let mut buf = vec![];
    let ser_ok = catch(|| heathcliff::Serializable::serialize(&parms, &mut buf)).ok().and_then(|r| r.ok()).is_some();
    check!(ser_ok, "serializing accepted parameters failed");
    let p3 = match catch(|| <EncryptionParameters as heathcliff::Serializable>::deserialize(&mut &buf[..])) { Ok(Ok(p)) => p, _ => return fail("deserializing accepted parameters failed") };
    let ctx3 = HeContext::new(p3, c.expand, sec_of(c.sec));
    for other in [&ctx2, &ctx3] {
        let ch2 = walk(other);
        check!(ch2.len() == chain.len() && ch2.iter().zip(chain.iter()).all(|(a, b)| a.parms_id() == b.parms_id()), "an independently built context disagrees on the level identifiers");
        check!(other.first_parms_id() == ctx.first_parms_id() && other.last_parms_id() == ctx.last_parms_id() && other.key_parms_id() == ctx.key_parms_id(), "independently built context disagrees on key/first/last ids");
    }
    {
        let mut g = IDS.lock().unwrap();
        let map = g.get_or_insert_with(HashMap::new);
        for cd in chain.iter() {
            let m: Vec<u64> = cd.parms().coeff_modulus().iter().map(|x| x.value()).collect();
            let desc = format!("{}/{}/{:?}/{}", c.scheme, n, m, c.t);
            if let Some(prev) = map.get(cd.parms_id()) { if prev != &desc { return fail_key("C13/id-collision", format!("two different parameter tuples share one identifier: {prev} and {desc}")); } }
            else if map.len() < 2_000_000 { map.insert(*cd.parms_id(), desc); }
        }
    }
    let _ = err;
    Verdict::Pass(Info::new(chain.len() >= 2).evals(evals).label("accepted").label(format!("levels:{}", chain.len().min(9))).label_if(c.sec != 0, "standard security level").label_if(c.special, "special flag"))
}

// ---------------------------------------------------------------------------------------------
// generated moduli: CoeffModulus::create, PlainModulus::batching, bfv_default; and the completeness smoke test

#[derive(Clone, Debug, Serialize, Deserialize)]
pub struct GenCase { pub logn: u32, pub bits: Vec<u32>, pub tbits: u32, pub scheme: u8, pub sec: u16 }

fn gen_case() -> BoxedStrategy<GenCase> {
    (1u32..=15, proptest::collection::vec(2u32..=60, 1..=8), 2u32..=60, 1u8..=3, 0u8..4).prop_map(|(logn, bits, tbits, scheme, s)| {
        let bits: Vec<u32> = bits.iter().map(|b| (*b).max(logn + 2)).collect();
        GenCase { logn, bits, tbits: tbits.max(logn + 2), scheme, sec: [0u16, 128, 192, 256][s as usize] }
    }).boxed()
}

fn gen_oracle(c: &GenCase) -> Verdict {
    let n = 1usize << c.logn;
    // enough primes of every requested size must exist (otherwise the generator legitimately gives up)
    {
        let mut need: HashMap<u32, usize> = HashMap::new();
        for b in c.bits.iter().chain([c.tbits].iter()) { *need.entry(*b).or_insert(0) += 1; }
        for (b, cnt) in need { if rm::primes_desc(2 * n as u64, b, cnt).len() < cnt {
            // the generator must then give up rather than hand out moduli of other sizes
            let sizes: Vec<usize> = c.bits.iter().map(|b| *b as usize).collect();
            if let Ok(v) = catch(|| CoeffModulus::create(n, sizes)) {
                for (m, bb) in v.iter().zip(c.bits.iter()) { check!(64 - m.value().leading_zeros() == *bb && rm::is_prime(m.value()) && m.value() % (2 * n as u64) == 1, "create returned {} for a requested size of {bb} bits although too few primes of a requested size exist", m.value()); }
                let mut vals: Vec<u64> = v.iter().map(|m| m.value()).collect(); vals.sort(); vals.dedup();
                check!(vals.len() == v.len(), "create returned duplicate primes");
            }
            return Verdict::Pass(Info::new(false).label("not enough primes of a requested size exist"));
        } }
    }
    let got = match catch(|| CoeffModulus::create(n, c.bits.iter().map(|b| *b as usize).collect())) { Ok(v) => v, Err(p) => return fail(format!("CoeffModulus::create({n}, {:?}) panicked although primes of these sizes exist: {p}", c.bits)) };
    check!(got.len() == c.bits.len(), "create returned {} moduli for {} sizes", got.len(), c.bits.len());
    for (m, b) in got.iter().zip(c.bits.iter()) {
        let v = m.value();
        check!(rm::is_prime(v), "create returned the composite {v}");
        check!(64 - v.leading_zeros() == *b, "create returned {v} for a requested size of {b} bits");
        check!(v % (2 * n as u64) == 1, "create returned {v}, not 1 mod 2N (N={n})");
        check!(m.is_prime(), "Modulus::is_prime false for the prime {v}");
    }
    let mut vals: Vec<u64> = got.iter().map(|m| m.value()).collect(); vals.sort(); vals.dedup();
    check!(vals.len() == got.len(), "create returned duplicate primes for sizes {:?}", c.bits);
    let t = match catch(|| PlainModulus::batching(n, c.tbits as usize)) { Ok(t) => t, Err(p) => return fail(format!("PlainModulus::batching({n}, {}) panicked: {p}", c.tbits)) };
    check!(rm::is_prime(t.value()) && t.value() % (2 * n as u64) == 1 && 64 - t.value().leading_zeros() == c.tbits, "batching modulus {} malformed", t.value());
    // completeness smoke test: the library's own generated moduli with a plain modulus of a different size are accepted at level None
    let q = BigU::product(&vals);
    let tv = t.value();
    if c.scheme == 2 || (!vals.contains(&tv) && BigU::from_u64(tv) < q) {
        let scheme = scheme_of(c.scheme);
        let mut p = EncryptionParameters::new(scheme).set_poly_modulus_degree(n).set_coeff_modulus(&got);
        if c.scheme != 2 { p = p.set_plain_modulus(&t); }
        let ctx = HeContext::new(p, true, SecurityLevel::None);
        check!(ctx.key_context_data().unwrap().qualifiers().parameters_set(), "a parameter set built from CoeffModulus::create / PlainModulus::batching was rejected: {:?}", ctx.key_context_data().unwrap().qualifiers().parameter_error);
    }
    // default BFV moduli stay within the table and are NTT-friendly primes
    if c.sec != 0 && (10..=15).contains(&c.logn) {
        let d = match catch(|| CoeffModulus::bfv_default(n, sec_of(c.sec))) { Ok(d) => d, Err(p) => return fail(format!("bfv_default({n}, {}) panicked: {p}", c.sec)) };
        let dv: Vec<u64> = d.iter().map(|m| m.value()).collect();
        check!(BigU::product(&dv).bits() <= max_bits(n, c.sec) && CoeffModulus::max_bit_count(n, sec_of(c.sec)) == max_bits(n, c.sec), "bfv_default({n},{}) exceeds the security table", c.sec);
        let mut s = dv.clone(); s.sort(); s.dedup();
        check!(s.len() == dv.len() && dv.iter().all(|&v| rm::is_prime(v) && v % (2 * n as u64) == 1), "bfv_default({n},{}) not distinct NTT-friendly primes", c.sec);
    }
    Verdict::Pass(Info::new(c.bits.len() >= 2).label(format!("logN={}", c.logn)))
}

/// The primality flag of `Modulus` decides since 7a0fca8 whether NTT tables (hence a context level, hence batching) exist for a
/// value: it is compared with the deterministic Miller-Rabin of refmath on the values a probabilistic test gets wrong when it
/// is mis-coded — Carmichael numbers without small factors (Chernick triples (6k+1)(12k+1)(18k+1)), strong pseudoprimes to
/// base 2, squares and near-squares of primes — next to primes and plain composites.
#[derive(Clone, Debug, Serialize, Deserialize)]
pub struct PrimeCase { pub v: u64 }
fn prime_cases(tier: Tier) -> Vec<PrimeCase> {
    let mut out: Vec<u64> = vec![];
    let kmax = tier.pick(30_000u64, 300_000u64);
    for k in 1..kmax { let (a, b, c) = (6 * k + 1, 12 * k + 1, 18 * k + 1); if rm::is_prime(a) && rm::is_prime(b) && rm::is_prime(c) { if let Some(n) = a.checked_mul(b).and_then(|x| x.checked_mul(c)) { if n >> 61 == 0 { out.push(n); } } } }
    out.extend_from_slice(&[561, 1105, 1729, 2465, 2821, 6601, 8911, 41041, 62745, 63973, 75361, 101101, 126217, 162401, 172081, 188461, 252601, 278545, 294409, 314821, 334153, 340561, 399001, 410041, 449065, 488881, 512461]);
    out.extend_from_slice(&[2047, 3277, 4033, 4681, 8321, 15841, 29341, 42799, 49141, 52633, 65281, 74665, 80581, 85489, 88357, 90751, 1373653, 25326001, 3215031751, 2152302898747, 3474749660383, 341550071728321]);
    for b in [8u32, 16, 24, 30, 31] { let p = crate::gen::ntt_prime(1, b, 0); let q = crate::gen::ntt_prime(1, b, 1); out.push(p * p); out.push(p * q); out.push(p); out.push(q); }
    for b in [40u32, 50, 60, 61] { for s in [0u8, 1, 0x45, 0x7f, 0x80] { let p = crate::gen::ntt_prime(3, b, s); out.push(p); out.push(p - 2); out.push(p + 2); } }
    out.sort(); out.dedup();
    out.into_iter().filter(|v| *v >= 2 && *v >> 61 == 0).map(|v| PrimeCase { v }).collect()
}
fn prime_oracle(c: &PrimeCase) -> Verdict {
    let want = rm::is_prime(c.v);
    let got = match catch(|| Modulus::new(c.v).is_prime()) { Ok(g) => g, Err(p) => return fail(format!("Modulus::new({}) panicked: {p}", c.v)) };
    if got != want { return fail_key("C13/primality-flag", format!("Modulus::new({}).is_prime() = {got}, but the value is {}", c.v, if want { "prime" } else { "composite" })); }
    Verdict::Pass(Info::new(!want).label(if want { "prime" } else { "composite" }))
}

/// regression for the repaired composite-modulus defect: contexts built repeatedly from one parameter object must agree
/// (before the fix the randomized root search accepted or rejected a composite modulus = 1 mod 2N from run to run)
fn probe_oracle(c: &ParmCase) -> Verdict {
    let parms = match build(c) { Ok(p) => p, Err(e) => return fail(e) };
    let mut seen: Vec<Vec<ParmsID>> = vec![];
    for _ in 0..60 {
        let ctx = match catch(|| HeContext::new(parms.clone(), c.expand, sec_of(c.sec))) { Ok(x) => x, Err(p) => return fail(format!("HeContext::new panicked: {p}")) };
        let ids: Vec<ParmsID> = if ctx.parameters_set() { walk(&ctx).iter().map(|c| *c.parms_id()).collect() } else { vec![] };
        if !seen.contains(&ids) { seen.push(ids); }
    }
    if seen.len() > 1 { return fail_key("C13/nondeterministic-root-search/composite-modulus", format!("60 contexts built from the same parameter object (moduli {:?}, N={}) produced {} different modulus chains", c.moduli, c.degree, seen.len())); }
    Verdict::Pass(Info::new(true))
}
fn probe_cases(_t: Tier) -> Vec<ParmCase> {
    vec![ParmCase { scheme: 2, degree: 32, moduli: vec![9007199254745473, 4157218049, 72057594037920833], t: 0, sec: 0, expand: true, special: false, order: 0 },
         ParmCase { scheme: 1, degree: 16384, moduli: vec![51540459521, 17180295169], t: 505901, sec: 128, expand: true, special: false, order: 2 }]
}

pub fn def() -> PropertyDef {
    PropertyDef {
        id: "C13",
        level: "exploration",
        rule: "random parameter objects built through the public builder in three setter orders: scheme incl. None, degree in {0,1,3,6,2^1..2^18}, 0..8 (occasionally 64) moduli from a pool of NTT-friendly primes of 2..60 bits, unfriendly primes, composites = 1 mod 2N, even values, 61-bit primes, 2, 3, arbitrary values and duplicates, plain modulus 0 / 2 / 2^k / multiple of a q_i / 61-bit / >= Q / batching prime / small, security level None/128/192/256 with standard degrees, both flags; exhaustive small universe N in {2,4,8}, one or two moduli 2..24 (thorough 2..64), t 2..12 (thorough 2..40), three schemes. Oracle: HeContext::new never panics; parameters_set implies an independently coded predicate on every level; rejected sets carry a specific error; accepted chains: link structure, prefix moduli, constants against big-integer definitions, qualifier flags, identifiers equal across independently built contexts (other setter order, after a serialization round trip) and collision-free over the run. Plus CoeffModulus::create / PlainModulus::batching / bfv_default outputs (deterministic Miller-Rabin, exact sizes, congruence, distinctness) and acceptance of library-generated sets. non-trivial: rejected beyond the first two rungs, or accepted with >= 2 levels.",
        assumptions: vec!["only the soundness direction (set => predicate) is asserted for arbitrary objects; completeness only for sets produced by the library's own generators", "collision freedom is over the generated universe, not SHA-256's domain"],
        subs: vec![
            Sub::prop("random_parameter_objects", 120_000, 1_000_000, 0.3, parm_case, oracle).fuzzable(parm_decode, oracle), Sub::corpus("fuzz_corpus_params", "c13_params", parm_decode, oracle),
            Sub::enumerate("small_universe_exhaustive", universe, oracle),
            Sub::prop("generated_moduli", 1_500, 30_000, 0.3, |_| gen_case(), gen_oracle),
            Sub::enumerate("composite_modulus_probe", probe_cases, probe_oracle), Sub::enumerate("primality_flag", prime_cases, prime_oracle),
        ],
    }
}
