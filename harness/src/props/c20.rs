//! C20 — homomorphic matrix products and convolutions equal plaintext ones, for all shapes.
use crate::bigint::BigU;
use crate::gen::params::*;
use crate::gen::*;
use crate::refmath as rm;
use crate::runner::*;
use heathcliff::app::conv2d::{Conv2dHelper, Conv2dHelperObjective};
use heathcliff::app::matmul::bolt_cc_cr::MatmulBoltCcCr;
use heathcliff::app::matmul::bolt_cc_dc::MatmulBoltCcDc;
use heathcliff::app::matmul::bolt_cp::MatmulBoltCp;
use heathcliff::app::matmul::cheetah::MatmulHelper;
use heathcliff::app::matmul::{Cipher2d, MatmulHelperObjective, Plain2d};
use heathcliff::app::rns_plain::*;
use heathcliff::*;
use proptest::prelude::*;

#[derive(Clone, Copy, Debug, PartialEq, Eq, serde::Serialize, serde::Deserialize)]
pub enum Method { Cheetah, CheetahReverse, CheetahCkks, BoltCp, BoltCcCr, BoltCcDc, Conv, ConvReverse, ConvCkks }
const METHODS: [Method; 9] = [Method::Cheetah, Method::CheetahReverse, Method::CheetahCkks, Method::BoltCp, Method::BoltCcCr, Method::BoltCcDc, Method::Conv, Method::ConvReverse, Method::ConvCkks];

#[derive(Clone, Debug, serde::Serialize, serde::Deserialize)]
pub struct AppCase {
    pub method: Method, pub logn: u32,
    /// matmul: (m, r, n); conv: (batch, c_in, c_out, H, W, kh, kw)
    pub dims: Vec<usize>,
    pub objective: u8, pub pack: bool, pub transport: u8, pub bias: bool, pub t_pow2: bool,
    pub seed: u64, pub entropy: u64,
}

fn ps_for(c: &AppCase) -> ParamSet {
    let ckks = matches!(c.method, Method::CheetahCkks | Method::ConvCkks);
    let bolt = matches!(c.method, Method::BoltCp | Method::BoltCcCr | Method::BoltCcDc);
    let moduli = if ckks { ntt_primes_distinct(c.logn, &[60, 40, 40, 60], &[0, 1, 2, 3]) } else { ntt_primes_distinct(c.logn, &[58, 57, 56, 59], &[0, 1, 2, 3]) };
    let t = if ckks { 0 } else if c.t_pow2 && !bolt { 1 << 17 } else { ntt_prime(c.logn, 17, 2) };
    ParamSet { scheme: if ckks { Scheme::CKKS } else { Scheme::BFV }, logn: c.logn, moduli, t, expand_chain: true, special_flag: false, entropy: c.entropy }
}

fn vals(seed: u64, tag: u64, len: usize, t: u64) -> Vec<u64> {
    let mut s = seed ^ tag.wrapping_mul(0x9e3779b97f4a7c15) ^ 0x1234567;
    (0..len).map(|i| { s ^= s << 13; s ^= s >> 7; s ^= s << 17; match (s >> 60) as u8 { 0 => 0, 1 => t - 1, 2 => t / 2, 3 => 1, _ => (s.wrapping_add(i as u64)) % t } }).collect()
}
fn fvals(seed: u64, tag: u64, len: usize) -> Vec<f64> { vals(seed, tag, len, 1 << 20).iter().map(|v| (*v as f64 - 524288.0) / 52428.8).collect() } // |v| <= 10

fn matmul_ref(x: &[u64], w: &[u64], bias: Option<&[u64]>, m: usize, r: usize, n: usize, t: u64) -> Vec<u64> {
    let mut out = vec![0u64; m * n];
    for i in 0..m { for j in 0..n { let mut acc: u128 = 0; for k in 0..r { acc = (acc + x[i * r + k] as u128 * w[k * n + j] as u128) % t as u128; } if let Some(b) = bias { acc = (acc + b[i * n + j] as u128) % t as u128; } out[i * n + j] = acc as u64; } }
    out
}
fn matmul_ref_f(x: &[f64], w: &[f64], bias: Option<&[f64]>, m: usize, r: usize, n: usize) -> Vec<f64> {
    let mut out = vec![0.0; m * n];
    for i in 0..m { for j in 0..n { let mut acc = 0.0; for k in 0..r { acc += x[i * r + k] * w[k * n + j]; } if let Some(b) = bias { acc += b[i * n + j]; } out[i * n + j] = acc; } }
    out
}
/// valid cross-correlation: out[b][oc][i][j] = sum_{ic,ki,kj} in[b][ic][i+ki][j+kj] * w[oc][ic][ki][kj]
fn conv_ref(inp: &[u64], w: &[u64], bias: Option<&[u64]>, d: &[usize], t: u64) -> Vec<u64> {
    let (bs, ci, co, h, wd, kh, kw) = (d[0], d[1], d[2], d[3], d[4], d[5], d[6]);
    let (oh, ow) = (h - kh + 1, wd - kw + 1);
    let mut out = vec![0u64; bs * co * oh * ow];
    for b in 0..bs { for oc in 0..co { for i in 0..oh { for j in 0..ow {
        let oi = ((b * co + oc) * oh + i) * ow + j; let mut acc: u128 = 0;
        for ic in 0..ci { for ki in 0..kh { for kj in 0..kw { acc = (acc + inp[((b * ci + ic) * h + i + ki) * wd + j + kj] as u128 * w[((oc * ci + ic) * kh + ki) * kw + kj] as u128) % t as u128; } } }
        if let Some(bb) = bias { acc = (acc + bb[oi] as u128) % t as u128; }
        out[oi] = acc as u64;
    } } } }
    out
}
fn conv_ref_f(inp: &[f64], w: &[f64], bias: Option<&[f64]>, d: &[usize]) -> Vec<f64> {
    let (bs, ci, co, h, wd, kh, kw) = (d[0], d[1], d[2], d[3], d[4], d[5], d[6]);
    let (oh, ow) = (h - kh + 1, wd - kw + 1);
    let mut out = vec![0.0; bs * co * oh * ow];
    for b in 0..bs { for oc in 0..co { for i in 0..oh { for j in 0..ow {
        let oi = ((b * co + oc) * oh + i) * ow + j; let mut acc = 0.0;
        for ic in 0..ci { for ki in 0..kh { for kj in 0..kw { acc += inp[((b * ci + ic) * h + i + ki) * wd + j + kj] * w[((oc * ci + ic) * kh + ki) * kw + kj]; } } }
        if let Some(bb) = bias { acc += bb[oi]; }
        out[oi] = acc;
    } } } }
    out
}

fn app_case(tier: Tier) -> BoxedStrategy<AppCase> {
    let maxlog = tier.pick(5u32, 7u32);
    (0usize..METHODS.len(), 3u32..=maxlog, proptest::collection::vec(any::<u16>(), 7), 0u8..3, any::<bool>(), 0u8..3, any::<bool>(), any::<bool>(), any::<u64>(), any::<u64>())
        .prop_map(|(mi, logn, raw, objective, pack, transport, bias, t_pow2, seed, entropy)| {
            let method = METHODS[mi]; let n = 1usize << logn;
            let dims = match method {
                Method::Conv | Method::ConvReverse | Method::ConvCkks => {
                    // (batch, c_in, c_out, H, W, kh, kw): kernels fit in the image and in a polynomial; images up to several times the slot count
                    let kh = 1 + raw[5] as usize % 3; let kw = 1 + raw[6] as usize % 3.min(n / kh).max(1);
                    let h = kh + raw[3] as usize % (2 * (n as f64).sqrt() as usize + 3); let w = kw + raw[4] as usize % ((n as f64).sqrt() as usize + 3);
                    vec![1 + raw[0] as usize % 3, 1 + raw[1] as usize % 4, 1 + raw[2] as usize % 4, h, w, kh, kw]
                }
                _ => { let cap = |r: u16, m: usize| 1 + r as usize % m; // the slot-packing helpers tile dimensions above N/2: at small N the limit is above N/2 so that several tiles are needed along one or both tiled dimensions
                    let lim = match method { Method::BoltCcCr | Method::BoltCcDc => if n <= 32 { (3 * n / 2).min(24) } else { (n / 2).min(24) }, Method::BoltCp => n.min(40), _ => (2 * n).min(70) };
                    vec![cap(raw[0], lim), cap(raw[1], lim), cap(raw[2], lim)] }
            };
            AppCase { method, logn, dims, objective, pack, transport, bias, t_pow2, seed, entropy }
        }).boxed()
}

/// all shapes with every dimension <= dmax for the matrix methods at small N
fn small_shapes(tier: Tier) -> Vec<AppCase> {
    let mut out = vec![];
    let (dmax, logs): (usize, Vec<u32>) = tier.pick((3, vec![3]), (6, vec![3, 4, 5]));
    for &logn in &logs { for m in 1..=dmax { for r in 1..=dmax { for n in 1..=dmax {
        for method in [Method::Cheetah, Method::CheetahReverse, Method::BoltCp, Method::BoltCcCr, Method::BoltCcDc] {
            if matches!(method, Method::Cheetah | Method::CheetahReverse) { for pack in [false, true] { out.push(AppCase { method, logn, dims: vec![m, r, n], objective: ((m + r + n) % 3) as u8, pack, transport: ((m * r) % 3) as u8, bias: (m + n) % 2 == 0, t_pow2: r % 2 == 0, seed: (m * 64 + r * 8 + n) as u64, entropy: 5 }); } }
            else { out.push(AppCase { method, logn, dims: vec![m, r, n], objective: 0, pack: false, transport: 0, bias: false, t_pow2: false, seed: (m * 64 + r * 8 + n) as u64 + 1000, entropy: 6 }); }
        }
    } } } }
    out
}

fn transport(ctx: &HeContext, c: Cipher2d, mode: u8, terms: Option<&[usize]>) -> Result<Cipher2d, String> {
    match (mode, terms) {
        (1, Some(t)) => { let mut b = vec![]; c.serialize_terms(ctx, t, &mut b).map_err(|e| e.to_string())?; if b.len() != c.serialized_terms_size(ctx, t.len()) { return Err("serialized_terms_size mismatch".into()); } Cipher2d::deserialize_terms(ctx, t, &mut &b[..]).map_err(|e| e.to_string()) }
        (2, _) | (1, None) => { let mut b = vec![]; SerializableWithHeContext::serialize(&c, ctx, &mut b).map_err(|e| e.to_string())?; <Cipher2d as SerializableWithHeContext>::deserialize(ctx, &mut &b[..]).map_err(|e| e.to_string()) }
        _ => Ok(c),
    }
}

fn oracle(c: &AppCase) -> Verdict {
    let ps = ps_for(c);
    let w = match World::new(&ps) { Ok(w) => w, Err(e) => return fail_key("harness/params", e) };
    let n = w.n; let t = w.t(); let ev = &w.evaluator; let ctx = &w.context;
    let key = format!("C20/{:?}", c.method);
    let d = &c.dims;
    // guard: the worst-case noise of these pipelines under these fixed parameters is far below Q (t <= 2^17, Q_first >= 2^160, N <= 128, dims <= 130)
    let volume: f64 = d.iter().map(|x| *x as f64).product();
    let lv = (volume + 8.0).log2() + 3.0 * (n as f64).log2() + 3.0 * (t.max(2) as f64).log2() + 12.0 + (4.0 * n as f64).log2();
    let lq = log2_big(&w.levels[0].q);
    if ps.scheme == Scheme::BFV && !(lv + 6.0 < lq - 1.0) { return Verdict::Pass(Info::new(false).label("noise-unbounded")); }
    let objective = match c.objective % 3 { 0 => MatmulHelperObjective::CipherPlain, 1 => MatmulHelperObjective::PlainCipher, _ => MatmulHelperObjective::CpAddPc };
    let mut info = Info::new(false).label(format!("{:?}", c.method)).label(format!("logN={}", c.logn));
    let cmp = |got: &[u64], want: &[u64], what: &str| -> Option<Verdict> { if got.len() != want.len() { return Some(fail_key(key.clone(), format!("{what}: output has {} entries, expected {} (dims {:?}, N={n})", got.len(), want.len(), d))); }
        (0..want.len()).find(|&i| got[i] != want[i]).map(|i| fail_key(key.clone(), format!("{what}: output[{i}] = {} but the plaintext computation gives {} (dims {:?}, N={n}, t={t}, pack {}, objective {:?})", got[i], want[i], d, c.pack, c.objective % 3))) };
    match c.method {
        Method::Cheetah | Method::CheetahReverse => {
            let (m, r, nn) = (d[0], d[1], d[2]);
            let be = BatchEncoder::new(ctx.clone());
            let helper = match catch(|| MatmulHelper::new(m, r, nn, n, objective, c.pack)) { Ok(h) => h, Err(_) => return Verdict::Pass(info.label("shape not accepted by the constructor")) };
            let (x, wt, b) = (vals(c.seed, 1, m * r, t), vals(c.seed, 2, r * nn, t), vals(c.seed, 3, m * nn, t));
            let want = matmul_ref(&x, &wt, if c.bias { Some(&b) } else { None }, m, r, nn, t);
            let res = catch(|| -> Result<Vec<u64>, String> {
                let xe = helper.encode_inputs_bfv(&be, &x); let we = helper.encode_weights_bfv(&be, &wt);
                let mut y = if c.method == Method::Cheetah { let xc = xe.encrypt_symmetric(&w.encryptor).expand_seed(ctx); helper.matmul(ev, &xc, &we) } else { let wc = we.encrypt_symmetric(&w.encryptor).expand_seed(ctx); helper.matmul_reverse(ev, &xe, &wc) };
                if c.pack { let ak = w.keygen.create_automorphism_keys(false); y = helper.pack_outputs(ev, &ak, &y); }
                if c.bias { y.add_plain_inplace(ev, &helper.encode_outputs_bfv(&be, &b)); }
                let terms = helper.output_terms();
                let y = transport(ctx, y, c.transport, if c.pack { None } else { Some(&terms) })?;
                Ok(helper.decrypt_outputs_bfv(&be, &w.decryptor, &y))
            });
            match res { Err(p) => return fail_key(key, format!("cheetah matmul pipeline panicked for an accepted shape {:?} (N={n}, pack {}, objective {:?}, reverse {}): {p}", d, c.pack, c.objective % 3, c.method == Method::CheetahReverse)),
                Ok(Err(e)) => return fail_key(key, format!("transport failed: {e}")), Ok(Ok(got)) => if let Some(v) = cmp(&got, &want, "cheetah matmul") { return v; } }
            // output re-encoding is the inverse of output decoding
            match catch(|| { let enc = helper.encode_outputs_bfv(&be, &b).encrypt_symmetric(&w.encryptor).expand_seed(ctx); helper.decrypt_outputs_bfv(&be, &w.decryptor, &enc) }) {
                Ok(got) => if let Some(v) = cmp(&got, &b, "decrypt_outputs(encode_outputs(y))") { return v; }, Err(p) => return fail_key(key, format!("encode_outputs / decrypt_outputs panicked for shape {:?}: {p}", d)) }
            info.nontrivial = c.pack || m * r > n || r * nn > n || m * nn > n;
            info = info.label_if(c.pack, "pack_lwe").label_if(m * r > n || r * nn > n, "several ciphertexts per operand");
        }
        Method::CheetahCkks => {
            let (m, r, nn) = (d[0], d[1], d[2]);
            let enc = CKKSEncoder::new(ctx.clone());
            let helper = match catch(|| MatmulHelper::new(m, r, nn, n, objective, c.pack)) { Ok(h) => h, Err(_) => return Verdict::Pass(info.label("shape not accepted by the constructor")) };
            let (x, wt, b) = (fvals(c.seed, 1, m * r), fvals(c.seed, 2, r * nn), fvals(c.seed, 3, m * nn));
            let want = matmul_ref_f(&x, &wt, Some(&b), m, r, nn);
            let scale = 2f64.powi(40);
            let res = catch(|| -> Vec<f64> {
                let xe = helper.encode_inputs_ckks(&enc, &x, None, scale); let we = helper.encode_weights_ckks(&enc, &wt, None, scale);
                let xc = xe.encrypt_symmetric(&w.encryptor).expand_seed(ctx);
                let mut y = helper.matmul(ev, &xc, &we);
                if c.pack { let ak = w.keygen.create_automorphism_keys(false); y = helper.pack_outputs(ev, &ak, &y); }
                let q_drop = *w.levels[0].moduli.last().unwrap() as f64;
                y.rescale_to_next_inplace(ev);
                y.add_plain_inplace(ev, &helper.encode_outputs_ckks(&enc, &b, Some(w.levels[1].parms_id), scale * scale / q_drop));
                helper.decrypt_outputs_ckks(&enc, &w.decryptor, &y)
            });
            // worst-case: r products of magnitudes <= 10, each input coefficient carrying fresh noise; pack adds key-switching noise scaled by N
            let e_fresh = 21.0 * (2.0 * n as f64 + 1.0) + n as f64 + 3.0;
            let tol = (r as f64 + 1.0) * (n as f64) * 10.0 * (e_fresh + 2.0) / scale * 4.0 * if c.pack { (n * n) as f64 } else { 1.0 } + 1e-6;
            match res { Err(p) => return fail_key(key, format!("cheetah CKKS matmul pipeline panicked for shape {:?} (N={n}, pack {}): {p}", d, c.pack)),
                Ok(got) => { if got.len() != want.len() { return fail_key(key, format!("CKKS matmul: {} outputs, expected {}", got.len(), want.len())); }
                    for i in 0..want.len() { if !((got[i] - want[i]).abs() <= tol) { return fail_key(key, format!("CKKS matmul: output[{i}] = {} but the plaintext product gives {} (bound {tol:.3e}, dims {:?}, N={n}, pack {})", got[i], want[i], d, c.pack)); } } } }
            info.nontrivial = true; info = info.label_if(c.pack, "pack_lwe");
        }
        Method::BoltCp | Method::BoltCcCr | Method::BoltCcDc => {
            let (m, r, nn) = (d[0], d[1], d[2]);
            if !w.batching { return Verdict::Pass(info.label("no batching")); }
            let be = BatchEncoder::new(ctx.clone());
            let (x, wt) = (vals(c.seed, 1, m * r, t), vals(c.seed, 2, r * nn, t));
            let want = matmul_ref(&x, &wt, None, m, r, nn, t);
            let gk = match catch(|| w.keygen.create_galois_keys(false)) { Ok(k) => k, Err(p) => return fail(format!("create_galois_keys panicked: {p}")) };
            let rk = w.keygen.create_relin_keys(false);
            let res: Result<Option<(Vec<u64>, Vec<u64>)>, String> = catch(|| match c.method {
                Method::BoltCp => { let h = match catch(|| MatmulBoltCp::new(m, r, nn, n)) { Ok(h) => h, Err(_) => return None };
                    let xc = h.encode_inputs(&be, &x).encrypt_symmetric(&w.encryptor).expand_seed(ctx); let y = h.multiply(ev, &gk, &xc, &h.encode_weights(&be, &wt));
                    let got = h.decode_outputs(&be, &y.decrypt(&w.decryptor)); let rt = h.decode_outputs(&be, &h.encode_outputs(&be, &want)); Some((got, rt)) }
                Method::BoltCcCr => { let h = match catch(|| MatmulBoltCcCr::new(m, r, nn, n)) { Ok(h) => h, Err(_) => return None };
                    let xc = h.encode_inputs(&be, &x).encrypt_symmetric(&w.encryptor).expand_seed(ctx); let wc = h.encode_weights(&be, &wt).encrypt_symmetric(&w.encryptor).expand_seed(ctx);
                    let y = h.multiply(&be, ev, &gk, &rk, &xc, &wc);
                    let got = h.decode_outputs(&be, &y.decrypt(&w.decryptor)); let rt = h.decode_outputs(&be, &h.encode_outputs(&be, &want)); Some((got, rt)) }
                _ => { let h = match catch(|| MatmulBoltCcDc::new(m, r, nn, n)) { Ok(h) => h, Err(_) => return None };
                    let xc = h.encode_inputs(&be, &x).encrypt_symmetric(&w.encryptor).expand_seed(ctx); let wc = h.encode_weights(&be, &wt).encrypt_symmetric(&w.encryptor).expand_seed(ctx);
                    let y = h.multiply(&be, ev, &gk, &rk, &xc, &wc);
                    let got = h.decode_outputs(&be, &y.decrypt(&w.decryptor)); let rt = h.decode_outputs(&be, &h.encode_outputs(&be, &want)); Some((got, rt)) }
            });
            match res { Err(p) => return fail_key(key, format!("{:?} pipeline panicked for an accepted shape {:?} (N={n}): {p}", c.method, d)), Ok(None) => return Verdict::Pass(info.label("shape not accepted by the constructor")),
                Ok(Some((got, rt))) => { if let Some(v) = cmp(&got, &want, &format!("{:?}", c.method)) { return v; } if let Some(v) = cmp(&rt, &want, "decode_outputs(encode_outputs(y))") { return v; } } }
            info.nontrivial = m * r > n / 2 || r * nn > n / 2 || !m.is_power_of_two() || !r.is_power_of_two();
            info = info.label_if(m > n / 2 && r > n / 2, "tiled along both dimensions of the left operand").label_if(m > n / 2 || r > n / 2 || nn > n / 2, "some dimension above N/2");
        }
        Method::Conv | Method::ConvReverse => {
            let be = BatchEncoder::new(ctx.clone());
            let (bs, ci, co, h, wd, kh, kw) = (d[0], d[1], d[2], d[3], d[4], d[5], d[6]);
            if kh * kw > n || kh > h || kw > wd { return Verdict::Pass(info.label("kernel does not fit")); }
            let helper = match catch(|| Conv2dHelper::new(bs, ci, co, h, wd, kh, kw, n, match c.objective % 3 { 0 => Conv2dHelperObjective::CipherPlain, 1 => Conv2dHelperObjective::PlainCipher, _ => Conv2dHelperObjective::CpAddPc })) { Ok(h) => h, Err(_) => return Verdict::Pass(info.label("shape not accepted by the constructor")) };
            let (oh, ow) = (h - kh + 1, wd - kw + 1);
            let (x, wt, b) = (vals(c.seed, 1, bs * ci * h * wd, t), vals(c.seed, 2, co * ci * kh * kw, t), vals(c.seed, 3, bs * co * oh * ow, t));
            let want = conv_ref(&x, &wt, if c.bias { Some(&b) } else { None }, d, t);
            let res = catch(|| -> Result<Vec<u64>, String> {
                let xe = helper.encode_inputs_bfv(&be, &x); let we = helper.encode_weights_bfv(&be, &wt);
                let mut y = if c.method == Method::Conv { let xc = xe.encrypt_symmetric(&w.encryptor).expand_seed(ctx); helper.conv2d(ev, &xc, &we) } else { let wc = we.encrypt_symmetric(&w.encryptor).expand_seed(ctx); helper.conv2d_reverse(ev, &xe, &wc) };
                if c.bias { y.add_plain_inplace(ev, &helper.encode_outputs_bfv(&be, &b)); }
                let terms = helper.output_terms();
                let y = transport(ctx, y, c.transport, Some(&terms))?;
                Ok(helper.decrypt_outputs_bfv(&be, &w.decryptor, &y))
            });
            let split_h = h * wd > n;
            match res { Err(p) => return fail_key(format!("{key}{}", if p.contains("larger than the number of slots") { "/weight-buffer" } else { "" }), format!("conv2d pipeline panicked for an accepted shape (batch {bs}, c_in {ci}, c_out {co}, image {h}x{wd}, kernel {kh}x{kw}, N={n}, reverse {}): {p}", c.method == Method::ConvReverse)),
                Ok(Err(e)) => return fail_key(key, format!("transport failed: {e}")), Ok(Ok(got)) => if let Some(v) = cmp(&got, &want, "conv2d") { return v; } }
            info.nontrivial = split_h || bs * ci > 1 || co > 1;
            info = info.label_if(split_h, "image larger than a polynomial (split)");
        }
        Method::ConvCkks => {
            let enc = CKKSEncoder::new(ctx.clone());
            let (bs, ci, co, h, wd, kh, kw) = (d[0], d[1], d[2], d[3], d[4], d[5], d[6]);
            if kh * kw > n || kh > h || kw > wd { return Verdict::Pass(info.label("kernel does not fit")); }
            let helper = match catch(|| Conv2dHelper::new(bs, ci, co, h, wd, kh, kw, n, Conv2dHelperObjective::CipherPlain)) { Ok(h) => h, Err(_) => return Verdict::Pass(info.label("shape not accepted by the constructor")) };
            let (oh, ow) = (h - kh + 1, wd - kw + 1);
            let (x, wt, b) = (fvals(c.seed, 1, bs * ci * h * wd), fvals(c.seed, 2, co * ci * kh * kw), fvals(c.seed, 3, bs * co * oh * ow));
            let want = conv_ref_f(&x, &wt, Some(&b), d);
            let scale = 2f64.powi(40);
            let res = catch(|| -> Vec<f64> {
                let xc = helper.encode_inputs_ckks(&enc, &x, None, scale).encrypt_symmetric(&w.encryptor).expand_seed(ctx);
                let mut y = helper.conv2d(ev, &xc, &helper.encode_weights_ckks(&enc, &wt, None, scale));
                let q_drop = *w.levels[0].moduli.last().unwrap() as f64;
                y.rescale_to_next_inplace(ev);
                y.add_plain_inplace(ev, &helper.encode_outputs_ckks(&enc, &b, Some(w.levels[1].parms_id), scale * scale / q_drop));
                helper.decrypt_outputs_ckks(&enc, &w.decryptor, &y)
            });
            let e_fresh = 21.0 * (2.0 * n as f64 + 1.0) + n as f64 + 3.0;
            let tol = ((ci * kh * kw) as f64 + 1.0) * (n as f64) * 10.0 * (e_fresh + 2.0) / scale * 4.0 + 1e-6;
            match res { Err(p) => return fail_key(format!("{key}{}", if p.contains("Too many values") { "/weight-buffer" } else { "" }), format!("CKKS conv2d pipeline panicked for shape {:?} (N={n}): {p}", d)),
                Ok(got) => { if got.len() != want.len() { return fail_key(key, format!("CKKS conv2d: {} outputs, expected {}", got.len(), want.len())); }
                    for i in 0..want.len() { if !((got[i] - want[i]).abs() <= tol) { return fail_key(key, format!("CKKS conv2d: output[{i}] = {} but the plaintext correlation gives {} (bound {tol:.3e}, dims {:?}, N={n})", got[i], want[i], d)); } } } }
            info.nontrivial = true;
        }
    }
    Verdict::Pass(info)
}

// ---------------------------------------------------------------------------------------------
// RNS-plaintext wrapper: arithmetic modulo the product of its plain moduli
#[derive(Clone, Debug, serde::Serialize, serde::Deserialize)]
pub struct RnspCase { pub logn: u32, pub count: u8, pub op: u8, pub seed: u64, pub entropy: u64 }

fn rnsp_oracle(c: &RnspCase) -> Verdict {
    let logn = c.logn; let n = 1usize << logn; let k = 2 + (c.count % 3) as usize;
    let tbits: Vec<u32> = (0..k).map(|i| 20 + i as u32).collect();
    let ts = ntt_primes_distinct(logn, &tbits, &[0, 1, 2, 3]);
    let qs: Vec<u64> = ntt_primes_distinct(logn, &[58, 57, 56, 59, 55], &[0, 1, 2, 3, 0]).into_iter().filter(|q| !ts.contains(q)).take(4).collect();
    heathcliff::verif_hooks::set_entropy_override(Some(c.entropy));
    let parms = RnspEncryptionParameters::new(SchemeType::BFV).set_poly_modulus_degree(n).set_coeff_modulus(qs.iter().map(|q| Modulus::new(*q)).collect()).set_plain_modulus(ts.iter().map(|t| Modulus::new(*t)).collect());
    let rc = match catch(|| RnspHeContext::new(parms, true, SecurityLevel::None)) { Ok(r) => r, Err(p) => return fail(format!("RnspHeContext::new panicked: {p}")) };
    check!(rc.parameters_set(), "RNS-plaintext context rejected");
    let tprod = BigU::product(&ts);
    let res = catch(|| -> Result<(), String> {
        let kg = RnspKeyGenerator::new(&rc); let enc = RnspEncryptor::new(&rc).set_secret_key(kg.get_secret_key()); let dec = RnspDecryptor::new(&rc, kg.get_secret_key());
        let be = RnspBatchEncoder::new(&rc); let ev = RnspEvaluator::new(&rc);
        let mk = |tag: u64| -> (Vec<BigU>, Vec<u64>) { let mut big = vec![]; let mut words = vec![0u64; n * k];
            for i in 0..n { let raw: Vec<u64> = vals(c.seed, tag * 1000 + i as u64, k, u64::MAX); let v = BigU::from_limbs(&raw).rem(&tprod); let l = v.to_limbs(k); words[i * k..(i + 1) * k].copy_from_slice(&l); big.push(v); } (big, words) };
        let (a, aw) = mk(1); let (b, bw) = mk(2);
        let ca = enc.encrypt_symmetric_new(&be.encode_new(&aw)); let ca = RnspExpandSeed::expand_seed(ca, &rc);
        let pb = be.encode_new(&bw);
        if c.op % 7 >= 4 {
            // coefficient (polynomial) packing with short polynomials: after decryption every RNS component of the plaintext is
            // trimmed to its own significant length, and the wrapper must still recombine coefficient i of all components
            let la = 1 + (c.seed as usize >> 3) % n; let lb = if c.op % 7 == 6 { 1 + (c.seed as usize >> 11) % (n - la + 1) } else { 1 + (c.seed as usize >> 11) % n };
            let zero_tail = |big: &mut Vec<BigU>, words: &mut Vec<u64>, l: usize| { for i in l..n { big[i] = BigU::zero(); for x in words[i * k..(i + 1) * k].iter_mut() { *x = 0; } } };
            let (mut a, mut aw) = mk(3); zero_tail(&mut a, &mut aw, la);
            let (mut b, mut bw) = mk(4); zero_tail(&mut b, &mut bw, lb);
            let ca = RnspExpandSeed::expand_seed(enc.encrypt_symmetric_new(&be.encode_polynomial_new(&aw)), &rc);
            let pb = be.encode_polynomial_new(&bw);
            let (out, want): (RnspCiphertext, Vec<BigU>) = match c.op % 7 {
                4 => (ev.add_plain_new(&ca, &pb), (0..n).map(|i| a[i].add(&b[i]).rem(&tprod)).collect()),
                5 => (ev.sub_plain_new(&ca, &pb), (0..n).map(|i| a[i].add(&tprod).sub(&b[i]).rem(&tprod)).collect()),
                _ => { let mut w2 = vec![BigU::zero(); n]; for i in 0..la { for j in 0..lb { w2[i + j] = w2[i + j].add(&a[i].mul(&b[j])).rem(&tprod); } } (ev.multiply_plain_new(&ca, &pb), w2) }
            };
            let got = be.decode_polynomial_new(&dec.decrypt_new(&out));
            if got.len() != n * k { return Err(format!("decode_polynomial returned {} words for N={n}, {k} plain moduli", got.len())); }
            for i in 0..n { let g = BigU::from_limbs(&got[i * k..(i + 1) * k]); if g != want[i] { return Err(format!("coefficient {i}: got {} but the computation modulo the product of the {k} plain moduli gives {} (polynomial packing, op {}, operand lengths {la} and {lb})", g.to_hex(), want[i].to_hex(), c.op % 7)); } }
            return Ok(());
        }
        let (out, want): (RnspCiphertext, Vec<BigU>) = match c.op % 4 {
            0 => (ev.multiply_plain_new(&ca, &pb), a.iter().zip(b.iter()).map(|(x, y)| x.mul(y).rem(&tprod)).collect()),
            1 => (ev.add_plain_new(&ca, &pb), a.iter().zip(b.iter()).map(|(x, y)| x.add(y).rem(&tprod)).collect()),
            2 => (ev.sub_plain_new(&ca, &pb), a.iter().zip(b.iter()).map(|(x, y)| x.add(&tprod).sub(y).rem(&tprod)).collect()),
            _ => { let cb = RnspExpandSeed::expand_seed(enc.encrypt_symmetric_new(&pb), &rc); (ev.multiply_new(&ca, &cb), a.iter().zip(b.iter()).map(|(x, y)| x.mul(y).rem(&tprod)).collect()) }
        };
        let got = be.decode_new(&dec.decrypt_new(&out));
        for i in 0..n { let g = BigU::from_limbs(&got[i * k..(i + 1) * k]); if g != want[i] { return Err(format!("slot {i}: got {} but the computation modulo the product of the {k} plain moduli gives {} (op {})", g.to_hex(), want[i].to_hex(), c.op % 4)); } }
        // encode / decode round trip on boundary values
        let mut bw2 = vec![0u64; n * k]; let top = tprod.sub(&BigU::one()).to_limbs(k); bw2[..k].copy_from_slice(&top); if n > 1 { bw2[k] = 1; }
        let rt = be.decode_new(&be.encode_new(&bw2)); if rt != bw2 { return Err("decode(encode(v)) != v for v = prod(t_i) - 1".into()); }
        let _ = rm::gcd(1, 1);
        Ok(())
    });
    match res { Err(p) => fail(format!("RNS-plaintext pipeline panicked: {p}")), Ok(Err(m)) => fail(m), Ok(Ok(())) => Verdict::Pass(Info::new(true).label(format!("moduli={k}")).label(if c.op % 7 >= 4 { format!("polynomial packing op={}", c.op % 7) } else { format!("op={}", c.op % 4) })) }
}

pub fn def() -> PropertyDef {
    PropertyDef {
        id: "C20",
        level: "exploration",
        rule: "random: method in {coefficient-packing matmul forward / reverse / CKKS (3 objectives, pack_lwe on/off, bias through encode_outputs, transport none / selected terms / full), BOLT cp / cc_cr / cc_dc, conv2d forward / reverse / CKKS} x N=8..32 (thorough 128) x shapes (m,r,n) from 1 up to 2N and (batch, c_in, c_out, H, W, kh, kw) with images up to several times the slot count (so splits along every dimension incl. the height and partial last blocks occur) x boundary-biased values; exhaustive: every (m,r,n) with all dimensions <= 3 at N=8 (thorough <= 6 at N in {8,16,32}) for the five BFV matrix methods. Oracle: u128 reference product / valid cross-correlation modulo t (CKKS: f64 reference within a worst-case bound); decode_outputs(encode_outputs(y)) = y; a shape is accepted iff the constructor returns. Plus the RNS-plaintext wrapper: products, sums, differences with 2..4 plain moduli compared with big-integer arithmetic modulo their product. non-trivial: packing on, or more than one ciphertext per operand, or a dimension that is not a power of two / not a multiple of its block.",
        assumptions: vec!["fixed generous parameter family (t <= 2^17, three 56..59-bit data primes) under which the pipelines' worst-case noise stays below Q/2 with margin (guard computed per case)", "CKKS tolerance: (terms+1) N 10 (E_fresh+2) / scale x 4 (x N^2 with packing)"],
        subs: vec![
            Sub::prop("random_shapes", 60_000, 400_000, 0.3, app_case, oracle),
            Sub::enumerate("small_shapes_exhaustive", small_shapes, oracle),
            Sub::prop("rns_plain_wrapper", 12_000, 100_000, 0.5, |t| (3u32..=t.pick(5, 7), any::<u8>(), any::<u8>(), any::<u64>(), any::<u64>()).prop_map(|(logn, count, op, seed, entropy)| RnspCase { logn, count, op, seed, entropy }).boxed(), rnsp_oracle),
        ],
    }
}
