//! C01 — fresh encryptions decrypt to the plaintext, in every scheme, mode and level.
use crate::gen::params::*;
use crate::runner::*;
use crate::shadow::*;
use heathcliff::util::{BlakeRNG, PRNGSeed};
use heathcliff::*;
use num_complex::Complex64;
use proptest::prelude::*;
use rand::SeedableRng;
use serde::{Deserialize, Serialize};

#[derive(Clone, Copy, Debug, PartialEq, Eq, Serialize, Deserialize)]
pub enum Mode { Pk, PkInto, PkUPrng, Sk, SkSeed, SkSeedUPrng, ZeroPk, ZeroSk, ZeroSkSeed, ZeroPkAt, ZeroSkAt, ZeroSkSeedAt, ZeroPkAtUPrng }
const MODES: [Mode; 13] = [Mode::Pk, Mode::PkInto, Mode::PkUPrng, Mode::Sk, Mode::SkSeed, Mode::SkSeedUPrng, Mode::ZeroPk, Mode::ZeroSk,
    Mode::ZeroSkSeed, Mode::ZeroPkAt, Mode::ZeroSkAt, Mode::ZeroSkSeedAt, Mode::ZeroPkAtUPrng];

#[derive(Clone, Debug, Serialize, Deserialize)]
pub struct FreshCase {
    pub ps: ParamSet,
    pub mode: Mode,
    pub level_sel: u16,
    /// plaintext material: (selector, raw) per coefficient; length chosen by len_sel
    pub coeffs: Vec<(u8, u64)>,
    pub len_sel: u8,
    pub batch: bool,
    /// CKKS: values as (mantissa, exponent) pairs for re and im; scale bits selector
    pub cvals: Vec<(i32, i8, i32, i8)>,
    pub scale_sel: u16,
    pub prng_seed: u8,
}

fn cfg(tier: Tier, big: bool) -> ParamCfg {
    ParamCfg {
        schemes: vec![Scheme::BFV, Scheme::BGV, Scheme::CKKS],
        logn_lo: if big { 10 } else { 1 }, logn_hi: if big { tier.pick(12, 13) } else { 6 }, logn_small: if big { 10 } else { 4 },
        k_lo: 1, k_hi: 6, bits_lo: 2, bits_hi: 60, t_kind: TKind::Any, t_bits_lo: 2, t_bits_hi: 60,
        need_keyswitching: false, allow_special_flag: true, always_expand: false,
    }
}

fn fresh_case(tier: Tier, big: bool) -> BoxedStrategy<FreshCase> {
    (cfg(tier, big).strategy(), 0usize..MODES.len(), any::<u16>(), any::<u8>(), any::<bool>(), any::<u16>(), any::<u8>())
        .prop_flat_map(|(ps, mi, level_sel, len_sel, batch, scale_sel, prng_seed)| {
            let n = 1usize << ps.logn;
            (Just(ps), Just(MODES[mi]), Just(level_sel), proptest::collection::vec((any::<u8>(), any::<u64>()), n), Just(len_sel), Just(batch),
             proptest::collection::vec((any::<i32>(), -20i8..12, any::<i32>(), -20i8..12), (n / 2).max(1)), Just(scale_sel), Just(prng_seed))
        })
        .prop_map(|(ps, mode, level_sel, coeffs, len_sel, batch, cvals, scale_sel, prng_seed)| FreshCase { ps, mode, level_sel, coeffs, len_sel, batch, cvals, scale_sel, prng_seed })
        .boxed()
}

pub fn mk_f64(m: i32, e: i8) -> f64 { (m as f64) * (2.0f64).powi(e as i32 - 31) } // |value| < 2^e

fn prng(seed: u8) -> BlakeRNG { BlakeRNG::from_seed(PRNGSeed([seed; 64])) }

pub fn check_fresh_meta(w: &World, ct: &Ciphertext, level: usize, what: &str) -> Result<(), String> {
    if !ct.is_valid_for(&w.context) { return Err(format!("{what}: fresh ciphertext is not valid for the context")); }
    if ct.size() != 2 { return Err(format!("{what}: fresh ciphertext has size {}", ct.size())); }
    if ct.parms_id() != &w.levels[level].parms_id { return Err(format!("{what}: ciphertext is not at the requested level {level}")); }
    let want_ntt = w.ps.scheme != Scheme::BFV;
    if ct.is_ntt_form() != want_ntt { return Err(format!("{what}: is_ntt_form = {}", ct.is_ntt_form())); }
    if ct.correction_factor() != 1 { return Err(format!("{what}: correction factor {}", ct.correction_factor())); }
    if ct.coeff_modulus_size() != w.levels[level].moduli.len() || ct.poly_modulus_degree() != w.n { return Err(format!("{what}: wrong dimensions")); }
    Ok(())
}

fn fresh_oracle(c: &FreshCase) -> Verdict {
    let w = match World::new(&c.ps) { Ok(w) => w, Err(e) => return fail_key("harness/params", e) };
    let nm = NoiseModel::new(&w);
    let n = w.n; let t = w.t();
    let nlev = w.levels.len();
    let is_zero_mode = matches!(c.mode, Mode::ZeroPk | Mode::ZeroSk | Mode::ZeroSkSeed | Mode::ZeroPkAt | Mode::ZeroSkAt | Mode::ZeroSkSeedAt | Mode::ZeroPkAtUPrng);
    let at_mode = matches!(c.mode, Mode::ZeroPkAt | Mode::ZeroSkAt | Mode::ZeroSkSeedAt | Mode::ZeroPkAtUPrng);
    let is_pk = matches!(c.mode, Mode::Pk | Mode::PkInto | Mode::PkUPrng | Mode::ZeroPk | Mode::ZeroPkAt | Mode::ZeroPkAtUPrng);
    let wants_seed = matches!(c.mode, Mode::SkSeed | Mode::SkSeedUPrng | Mode::ZeroSkSeed | Mode::ZeroSkSeedAt);
    // level: CKKS plaintexts may be encoded at any level; BFV/BGV plaintext encryption happens at the first level
    let level = if at_mode || (w.ps.scheme == Scheme::CKKS && !is_zero_mode) { pick_idx(c.level_sel, nlev) } else { 0 };
    let lid = w.levels[level].parms_id;
    let lq = log2_big(&w.levels[level].q);
    // does the pk path go through the level-dependent modulus switch? (the target level has a predecessor)
    let switched = is_pk && w.context.get_context_data(&lid).unwrap().prev_context_data().is_some();
    let lv = nm.fresh(is_pk, switched);

    // ---- build the plaintext
    let mut msg: Vec<u64> = vec![];
    let mut cvals: Vec<Complex64> = vec![];
    let mut scale = 1.0f64;
    let mut max_abs = 0.0f64;
    let mut plain = Plaintext::new();
    let mut upper_half = false;
    if !is_zero_mode {
        match w.ps.scheme {
            Scheme::BFV | Scheme::BGV => {
                let len = match c.len_sel % 6 { 0 => 1, 1 => n, 2 => n.saturating_sub(1).max(1), 3 => (n / 2).max(1), _ => 1 + (c.len_sel as usize * 7) % n };
                let vals: Vec<u64> = c.coeffs.iter().take(len).map(|(s, r)| plain_value(*s, *r, t)).collect();
                upper_half = vals.iter().any(|&v| v >= (t + 1) / 2);
                let be = BatchEncoder::new(w.context.clone());
                if c.batch && w.batching {
                    plain = be.encode_new(&vals);
                    msg = pad(plain.data(), n);
                } else {
                    plain = be.encode_polynomial_new(&vals);
                    msg = pad(&vals, n);
                }
            }
            Scheme::CKKS => {
                let enc = CKKSEncoder::new(w.context.clone());
                let slots = (n / 2).max(1);
                let cnt = match c.len_sel % 4 { 0 => 1, 1 => slots, _ => 1 + (c.len_sel as usize) % slots };
                cvals = c.cvals.iter().take(cnt).map(|(a, ea, b, eb)| Complex64::new(mk_f64(*a, *ea), if c.len_sel & 0x40 != 0 { 0.0 } else { mk_f64(*b, *eb) })).collect();
                max_abs = cvals.iter().map(|z| z.norm()).fold(0.0, f64::max);
                // scale: 2^10 .. 2^(log Q - 4 - bits(max)) so that the scaled message stays well inside Q/2
                let vbits = max_abs.max(1.0).log2().ceil();
                let hi = (lq - 4.0 - vbits).floor();
                if hi < 10.0 { scale = 0.0; } else { scale = (10.0 + (c.scale_sel as f64 / 65536.0) * (hi - 10.0)).floor().exp2(); }
                if scale == 0.0 {
                    // chain too small for any admissible scale: nothing to encrypt at this level
                    return Verdict::Pass(Info::new(false).label("ckks: level too small for a scale"));
                }
                plain = match catch(|| enc.encode_c64_array_new(&cvals, Some(lid), scale)) { Ok(p) => p, Err(p) => return fail(format!("CKKS encode refused an admissible input: {p}")) };
            }
        }
    }

    // ---- encrypt
    let enc = &w.encryptor;
    // destination forms: half of the time the destination is a previously used buffer (another level, BGV correction factor != 1,
    // BFV in NTT form, a CKKS scale of its own) - encrypting into it must give the same result as into a new object
    let dirty = c.level_sel & 1 == 1;
    let dest = || -> Ciphertext {
        if !dirty { return Ciphertext::new(); }
        catch(|| {
            let mut d = enc.encrypt_zero_new();
            if w.levels.len() > 1 { d = w.evaluator.mod_switch_to_next_new(&d); }
            match c.ps.scheme { Scheme::BFV => w.evaluator.transform_to_ntt_inplace(&mut d), Scheme::CKKS => d.set_scale(12345.0), Scheme::BGV => {} }
            d
        }).unwrap_or_else(|_| Ciphertext::new())
    };
    let run = || -> Ciphertext {
        match c.mode {
            Mode::Pk => enc.encrypt_new(&plain),
            Mode::PkInto => { let mut d = if dirty { dest() } else { enc.encrypt_zero_symmetric_new() }; enc.encrypt(&plain, &mut d); d }
            Mode::PkUPrng => enc.encrypt_new_with_u_prng(&plain, &mut prng(c.prng_seed)),
            Mode::Sk => { let mut d = dest(); enc.encrypt_symmetric(&plain, &mut d); d }
            Mode::SkSeed => enc.encrypt_symmetric_new(&plain),
            Mode::SkSeedUPrng => enc.encrypt_symmetric_new_with_u_prng(&plain, &mut prng(c.prng_seed)),
            Mode::ZeroPk => enc.encrypt_zero_new(),
            Mode::ZeroSk => { let mut d = dest(); enc.encrypt_zero_symmetric(&mut d); d }
            Mode::ZeroSkSeed => enc.encrypt_zero_symmetric_new(),
            Mode::ZeroPkAt => enc.encrypt_zero_new_at(&lid),
            Mode::ZeroSkAt => { let mut d = dest(); enc.encrypt_zero_symmetric_at(&lid, &mut d); d }
            Mode::ZeroSkSeedAt => enc.encrypt_zero_symmetric_new_at(&lid),
            Mode::ZeroPkAtUPrng => enc.encrypt_zero_new_at_with_u_prng(&lid, &mut prng(c.prng_seed)),
        }
    };
    let mut ct = match catch(run) { Ok(ct) => ct, Err(p) => return fail(format!("encryption ({:?}) panicked on valid input: {p}", c.mode)) };
    let mut seeded = false;
    if wants_seed {
        // the library silently drops the seed when a polynomial is too small to hold it (N*k < 9)
        if ct.contains_seed() {
            seeded = true;
            check!(refuses(|| w.decryptor.decrypt_new(&ct)), "decryptor accepted a seed-compressed ciphertext");
            ct = match catch(|| ct.clone().expand_seed(&w.context)) { Ok(x) => x, Err(p) => return fail(format!("expand_seed panicked: {p}")) };
            check!(!ct.contains_seed(), "ciphertext still reports a seed after expansion");
        } else {
            check!(n * w.levels[level].moduli.len() < 9, "seed requested but not stored although N*k = {} >= 9", n * w.levels[level].moduli.len());
        }
    } else {
        // with overwhelming probability a uniformly random word is not the seed flag
        check!(!ct.contains_seed(), "non-seeded mode produced a ciphertext flagged as seeded");
    }
    if let Err(e) = check_fresh_meta(&w, &ct, level, &format!("{:?}", c.mode)) { return fail(e); }
    let expect_scale = if w.ps.scheme == Scheme::CKKS && !is_zero_mode { scale } else { 1.0 };
    check!(ct.scale() == expect_scale, "fresh ciphertext scale {} (expected {})", ct.scale(), expect_scale);

    // ---- decrypt
    let dec = match catch(|| w.decryptor.decrypt_new(&ct)) { Ok(p) => p, Err(p) => return fail(format!("decryption of a fresh ciphertext panicked: {p}")) };
    let assertable = nm.assertable(lv, lq);
    let mut info = Info::new(false).label(format!("{:?}", w.ps.scheme)).label(format!("{:?}", c.mode)).label_if(!assertable, "noise-unbounded")
        .label_if(seeded, "seeded").label_if(switched, "pk-modswitch").label_if(level > 0, "lower level").label_if(w.ps.special_flag, "special-prime flag");
    if !assertable { return Verdict::Pass(info); }
    match w.ps.scheme {
        Scheme::BFV | Scheme::BGV => {
            check!(!dec.is_ntt_form() && dec.coeff_count() >= 1 && dec.coeff_count() <= n, "decrypted plaintext malformed (coeff_count {})", dec.coeff_count());
            let got = pad(dec.data(), n);
            let want = if is_zero_mode { vec![0u64; n] } else { msg.clone() };
            if got != want {
                let i = (0..n).find(|&i| got[i] != want[i]).unwrap();
                return fail(format!("{:?}/{:?}: decrypt(encrypt(m)) != m at coefficient {i}: got {} want {} (t={t}, level {level}, noise bound 2^{:.1}, Q 2^{:.1})", w.ps.scheme, c.mode, got[i], want[i], lv, lq));
            }
            let fast_lift = w.context.first_context_data().unwrap().qualifiers().using_fast_plain_lift;
            info.nontrivial = upper_half || level > 0 || !fast_lift || seeded || switched;
            info = info.label_if(upper_half, "upper-half coefficient").label_if(!fast_lift, "no fast plain lift");
        }
        Scheme::CKKS => {
            if is_zero_mode {
                // zero encryptions carry scale 1: the decrypted polynomial is just the noise; bound every coefficient
                let e_bound = (lv.exp2()) * 2.0;
                check!(dec.is_ntt_form(), "CKKS decryption not in NTT form");
                let mut d = dec.data().clone();
                let cd = w.context.get_context_data(&lid).unwrap();
                for (j, tb) in cd.small_ntt_tables().iter().enumerate() { tb.inverse_ntt_negacyclic_harvey(&mut d[j * n..(j + 1) * n]); }
                let q0 = w.levels[level].moduli[0];
                if (q0 as f64) > 4.0 * e_bound {
                    for i in 0..n { let v = d[i]; let a = if v > q0 / 2 { q0 - v } else { v }; check!((a as f64) <= e_bound, "zero encryption: noise coefficient {a} exceeds worst-case bound {e_bound}"); }
                }
                info.nontrivial = level > 0 || seeded || switched;
            } else {
                let enc = CKKSEncoder::new(w.context.clone());
                let out = match catch(|| enc.decode_new(&dec)) { Ok(o) => o, Err(p) => return fail(format!("CKKS decode panicked: {p}")) };
                let e = lv.exp2();
                let tol = ckks_tolerance(n, c.ps.logn, scale, max_abs, e + 1.0, (w.levels[level].qbits + 63) / 64);
                for i in 0..(n / 2).max(1) {
                    let want = if i < cvals.len() { cvals[i] } else { Complex64::new(0.0, 0.0) };
                    let d = (out[i] - want).norm();
                    if !(d <= tol) { return fail(format!("CKKS/{:?}: slot {i} decoded to {} want {} (|diff| {d:.3e} > bound {tol:.3e}; scale 2^{}, level {level})", c.mode, out[i], want, scale.log2())); }
                }
                let has_neg = cvals.iter().any(|z| z.re < 0.0 || z.im != 0.0);
                info.nontrivial = has_neg || level > 0 || seeded || switched;
                info = info.label_if(has_neg, "negative/complex values");
            }
        }
    }
    Verdict::Pass(info)
}

pub fn def() -> PropertyDef {
    PropertyDef {
        id: "C01",
        level: "exploration",
        rule: "random parameter sets (3 schemes, N=2..64 mostly, a separate sub-check with N=1024..8192, 1..6 primes of 2..60 bits in generated order, plain modulus batching / 2^k / odd composite / larger than a prime / tiny / just below Q, special-prime flag, chain on/off) x 13 encryption entry points (pk, sk, seeded+expanded, explicit generator, zero encryptions at every level) x plaintexts from {0,1,t-1,t/2,(t+1)/2,...} of lengths 1..N (coefficient or batch encoded) / complex vectors with signs and imaginary parts. The equality is asserted only when the deterministic worst-case fresh noise bound (with a 2^6 margin) is below Q_level/2; other cases check panic-freedom and validity only. non-trivial: asserted and (upper-half coefficient or lower level or no fast plain lift or seeded or pk path through the level-dependent modulus switch / CKKS negative or complex values).",
        assumptions: vec![
            "worst-case fresh noise: ternary secret and mask, |e| <= 21, rounding <= 1/2 per coefficient (DESIGN.md §4)",
            "CKKS tolerance N(E+1)/scale + 1024 eps (logN+1)(max|z|+1)",
            "library randomness is made a function of the case through hook H2 (replayable)",
        ],
        subs: vec![
            Sub::prop("fresh_small_degree", 60_000, 1_500_000, 0.3, |t| fresh_case(t, false), fresh_oracle),
            Sub::prop("fresh_large_degree", 1_500, 30_000, 0.3, |t| fresh_case(t, true), fresh_oracle),
        ],
    }
}
