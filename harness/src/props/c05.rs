//! C05 — moving down the modulus chain terminates, hits the target, keeps the message.
use crate::gen::params::*;
use crate::refmath as rm;
use crate::runner::*;
use crate::shadow::*;
use heathcliff::*;
use num_complex::Complex64;
use proptest::prelude::*;
use serde::{Deserialize, Serialize};
use std::time::Duration;

#[derive(Clone, Copy, Debug, PartialEq, Eq, Serialize, Deserialize)]
pub enum Form {
    ToNext, ToNextInplace, ToNextNew, To, ToInplace, ToNew,
    RescaleToNext, RescaleToNextInplace, RescaleToNextNew, RescaleTo, RescaleToInplace, RescaleToNew,
    PlainToNext, PlainToNextInplace, PlainToNextNew, PlainTo, PlainToInplace, PlainToNew,
}
pub const FORMS: [Form; 18] = [Form::ToNext, Form::ToNextInplace, Form::ToNextNew, Form::To, Form::ToInplace, Form::ToNew,
    Form::RescaleToNext, Form::RescaleToNextInplace, Form::RescaleToNextNew, Form::RescaleTo, Form::RescaleToInplace, Form::RescaleToNew,
    Form::PlainToNext, Form::PlainToNextInplace, Form::PlainToNextNew, Form::PlainTo, Form::PlainToInplace, Form::PlainToNew];

impl Form {
    fn is_plain(self) -> bool { matches!(self, Form::PlainToNext | Form::PlainToNextInplace | Form::PlainToNextNew | Form::PlainTo | Form::PlainToInplace | Form::PlainToNew) }
    fn is_rescale(self) -> bool { matches!(self, Form::RescaleToNext | Form::RescaleToNextInplace | Form::RescaleToNextNew | Form::RescaleTo | Form::RescaleToInplace | Form::RescaleToNew) }
    fn is_next(self) -> bool { matches!(self, Form::ToNext | Form::ToNextInplace | Form::ToNextNew | Form::RescaleToNext | Form::RescaleToNextInplace | Form::RescaleToNextNew | Form::PlainToNext | Form::PlainToNextInplace | Form::PlainToNextNew) }
}

/// target: a data level index, or special targets
#[derive(Clone, Copy, Debug, PartialEq, Eq, Serialize, Deserialize)]
pub enum Target { Level(usize), KeyLevel, Unknown }

#[derive(Clone, Debug, Serialize, Deserialize)]
pub struct SwitchCase {
    pub ps: ParamSet,
    pub form: Form,
    pub src: u16,
    pub tgt: u16,
    /// 0..: Level(sel), with small probability KeyLevel / Unknown
    pub tgt_kind: u8,
    pub size: u8,
    pub coeffs: Vec<(u8, u64)>,
    pub cvals: Vec<(i32, i32)>,
    pub scale_sel: u16,
}

fn cfg5(tier: Tier) -> ParamCfg {
    ParamCfg { schemes: vec![Scheme::BFV, Scheme::BGV, Scheme::CKKS], logn_lo: 1, logn_hi: tier.pick(4, 7), logn_small: 3, k_lo: 1, k_hi: 7, bits_lo: 30, bits_hi: 60,
        t_kind: TKind::Any, t_bits_lo: 2, t_bits_hi: 24, need_keyswitching: false, allow_special_flag: true, always_expand: true }
}

fn switch_case(tier: Tier) -> BoxedStrategy<SwitchCase> {
    (cfg5(tier).strategy(), 0usize..FORMS.len(), any::<u16>(), any::<u16>(), 0u8..16, 2u8..=4, any::<u16>())
        .prop_flat_map(|(ps, fi, src, tgt, tgt_kind, size, scale_sel)| {
            let n = 1usize << ps.logn;
            (Just(ps), Just(FORMS[fi]), Just(src), Just(tgt), Just(tgt_kind), Just(size), proptest::collection::vec((any::<u8>(), any::<u64>()), n),
             proptest::collection::vec((any::<i32>(), any::<i32>()), (n / 2).max(1)), Just(scale_sel))
        }).prop_map(|(ps, form, src, tgt, tgt_kind, size, coeffs, cvals, scale_sel)| SwitchCase { ps, form, src, tgt, tgt_kind, size, coeffs, cvals, scale_sel }).boxed()
}

/// exhaustive: fixed small parameter sets, every (src, tgt) pair, every form, sizes 2..3
fn exhaustive_cases(tier: Tier) -> Vec<SwitchCase> {
    let mut out = vec![];
    let logn = 3u32;
    let maxk = tier.pick(5, 7);
    for scheme in [Scheme::BFV, Scheme::BGV, Scheme::CKKS] {
        for k in 1..=maxk {
            let bits: Vec<u32> = (0..k).map(|i| [50u32, 40, 45, 55, 36, 60, 42][i % 7]).collect();
            let moduli = crate::gen::ntt_primes_distinct(logn, &bits, &[0, 1, 2, 3]);
            let t = if scheme == Scheme::CKKS { 0 } else { 257 };
            let ps = ParamSet { scheme, logn, moduli, t, expand_chain: true, special_flag: false, entropy: 7 * k as u64 + 1 };
            let nlev = if k == 1 { 1 } else { k - 1 };
            for src in 0..nlev { for tgt in 0..nlev + 2 { for &form in FORMS.iter() { for size in [2u8, 3] {
                if form.is_plain() && size == 3 { continue; }
                let (tk, tg) = if tgt < nlev { (0u8, tgt) } else if tgt == nlev { (14, 0) } else { (15, 0) };
                let coeffs = (0..8).map(|i| ((i * 3 + k) as u8, (i as u64 + 1).wrapping_mul(0x9e3779b97f4a7c15))).collect();
                let cvals = (0..4).map(|i| ((i as i32 - 2) * 300_000_000, (i as i32) * 123_456_789 - 200_000_000)).collect();
                out.push(SwitchCase { ps: ps.clone(), form, src: ((src * 65536 + 32768) / nlev) as u16, tgt: ((tg * 65536 + 32768) / nlev) as u16, tgt_kind: tk, size, coeffs, cvals, scale_sel: 30000 });
            } } } }
        }
    }
    out
}

fn ulp_diff(a: f64, b: f64) -> u64 { if a.is_sign_negative() != b.is_sign_negative() { u64::MAX } else { a.to_bits().abs_diff(b.to_bits()) } }

fn oracle(c: &SwitchCase) -> Verdict {
    let w = match World::new(&c.ps) { Ok(w) => w, Err(e) => return fail_key("harness/params", e) };
    let nm = NoiseModel::new(&w);
    let n = w.n; let t = w.t(); let slots = (n / 2).max(1);
    let nlev = w.levels.len();
    let src = pick_idx(c.src, nlev);
    let scheme = w.ps.scheme;
    let form = c.form;
    let key_differs = w.context.key_parms_id() != w.context.first_parms_id();
    let target = match c.tgt_kind { 14 if key_differs => Target::KeyLevel, 15 => Target::Unknown, _ => Target::Level(pick_idx(c.tgt, nlev)) };
    let target = if form.is_next() { Target::Level(src + 1) } else { target };
    let target_id: ParmsID = match target { Target::Level(l) if l < nlev => w.levels[l].parms_id, Target::Level(_) => [1, 2, 3, 4], Target::KeyLevel => *w.context.key_parms_id(), Target::Unknown => [0xdead, 0xbeef, 1, 2] };
    let ev = &w.evaluator;
    let lq = |l: usize| log2_big(&w.levels[l].q);
    let key = format!("C05/{:?}/{:?}", scheme, form);

    // ---------------- build the source object at level `src`
    let be = if scheme != Scheme::CKKS { Some(BatchEncoder::new(w.context.clone())) } else { None };
    let ce = if scheme == Scheme::CKKS { Some(CKKSEncoder::new(w.context.clone())) } else { None };
    let msg: Vec<u64> = c.coeffs.iter().take(n).map(|(s, r)| plain_value(*s, *r, t.max(2))).collect();
    let cv: Vec<Complex64> = c.cvals.iter().take(slots).map(|(a, b)| Complex64::new(*a as f64 / 2f64.powi(29), *b as f64 / 2f64.powi(29))).collect(); // |v| < 4
    let maxv = cv.iter().map(|z| z.norm()).fold(0.0, f64::max);
    // CKKS scale: leave room for size-3/4 products and for several rescalings
    let want_size = if form.is_plain() { 2 } else { c.size as usize };
    let hi = ((lq(0) - 10.0) / (want_size as f64 - 1.0).max(1.0) - 3.0).min(50.0).floor();
    let scale = if scheme == Scheme::CKKS { if hi < 10.0 { return Verdict::Pass(Info::new(false).label("chain too small for a scale")); } (10.0 + (c.scale_sel as f64 / 65536.0) * (hi - 10.0 + 1.0)).floor().min(hi).exp2() } else { 1.0 };

    let mut exp_msg = msg.clone(); let mut exp_vals = cv.clone(); let mut cur_scale = scale; let mut max_abs = maxv;
    let mut ct = Ciphertext::new(); let mut pt = Plaintext::new();
    let mut lv; let mut cur_size = 2usize;
    if form.is_plain() {
        lv = 0.0;
        match scheme {
            Scheme::CKKS => { pt = match catch(|| ce.as_ref().unwrap().encode_c64_array_new(&cv, Some(w.levels[src].parms_id), scale)) { Ok(p) => p, Err(_) => return Verdict::Pass(Info::new(false).label("encode refused (scale does not fit this level)")) }; }
            _ => { let p0 = be.as_ref().unwrap().encode_polynomial_new(&msg); pt = match catch(|| ev.transform_plain_to_ntt_new(&p0, &w.levels[src].parms_id)) { Ok(p) => p, Err(p) => return fail(format!("transform_plain_to_ntt panicked: {p}")) }; }
        }
    } else {
        let p0 = match scheme { Scheme::CKKS => match catch(|| ce.as_ref().unwrap().encode_c64_array_new(&cv, None, scale)) { Ok(p) => p, Err(p) => return fail(format!("encode refused: {p}")) }, _ => be.as_ref().unwrap().encode_polynomial_new(&msg) };
        ct = match catch(|| w.encryptor.encrypt_new(&p0)) { Ok(c) => c, Err(p) => return fail(format!("encrypt panicked: {p}")) };
        let switched = w.context.first_context_data().unwrap().prev_context_data().is_some();
        lv = nm.fresh(true, switched);
        if scheme == Scheme::CKKS { lv = (lv.exp2() + 2.0 + f64::EPSILON * 64.0 * (c.ps.logn as f64 + 1.0) * scale * maxv).log2(); }
        // grow to the requested size by multiplying with itself (no relinearisation)
        let fresh = ct.clone(); let fresh_lv = lv; let fresh_msg = exp_msg.clone(); let fresh_vals = exp_vals.clone();
        while cur_size < want_size {
            if scheme == Scheme::CKKS && !((cur_scale * scale).log2() + 2.0 < w.levels[0].qbits as f64) { break; }
            ct = match catch(|| ev.multiply_new(&ct, &fresh)) { Ok(c) => c, Err(p) => return fail(format!("building a size-{} source: multiply panicked: {p}", cur_size + 1)) };
            match scheme {
                Scheme::CKKS => {
                    let (m1, m2, e1, e2) = (cur_scale * max_abs, scale * maxv, lv.exp2(), fresh_lv.exp2());
                    lv = ((n as f64) * (m1 * e2 + m2 * e1 + e1 * e2)).log2();
                    exp_vals = (0..slots).map(|i| exp_vals[i] * fresh_vals[i]).collect(); cur_scale *= scale; max_abs *= maxv;
                }
                _ => { lv = nm.mul(lv, cur_size, fresh_lv, 2, w.levels[0].moduli.len(), lq(0)); exp_msg = pmul(&pad(&exp_msg, n), &pad(&fresh_msg, n), t); }
            }
            cur_size += 1;
        }
        // walk down to src with the single-step value-returning form
        for l in 0..src {
            let ql = *w.levels[l].moduli.last().unwrap();
            ct = match catch(|| ev.mod_switch_to_next_new(&ct)) { Ok(c) => c, Err(_) => return Verdict::Pass(Info::new(false).label("source not reachable (scale does not fit lower level)")) };
            if scheme != Scheme::CKKS { lv = nm.modswitch(lv, cur_size, ql); }
        }
    }
    let src_cf = ct.correction_factor();

    // ---------------- expected outcome
    let rescale_wrong_scheme = form.is_rescale() && scheme != Scheme::CKKS;
    let refuse = rescale_wrong_scheme || match target { Target::Level(l) => l >= nlev || l < src, _ => true };
    let tl = if let Target::Level(l) = target { l } else { 0 };
    // CKKS: a plain switch needs the scale to fit the lower modulus; such targets are refusals by the library's own scale rule
    let mut scale_refusal = false;
    if scheme == Scheme::CKKS && !refuse && !form.is_rescale() { for l in src + 1..=tl { if !((cur_scale.log2() as isize) < w.levels[l].qbits as isize) { scale_refusal = true; } } }
    let expect_refusal = refuse || scale_refusal;
    // rescale_to(current level) on the last level: the library refuses ('end of chain'); an identity result is equally
    // consistent with the statement, so both outcomes are accepted there
    let either = form.is_rescale() && !form.is_next() && scheme == Scheme::CKKS && !expect_refusal && tl == src && src + 1 == nlev;

    // ---------------- run the form under the deadline
    let ctx = w.context.clone(); let ct_in = ct.clone(); let pt_in = pt.clone();
    // destination-argument forms receive an unrelated ciphertext that must be overwritten completely
    let garbage = catch(|| w.encryptor.encrypt_zero_new()).unwrap_or_default();
    let run = move || -> (Ciphertext, Plaintext) {
        let ev = Evaluator::new(ctx);
        let mut d = garbage; let mut dp = Plaintext::new();
        match form {
            Form::ToNext => ev.mod_switch_to_next(&ct_in, &mut d),
            Form::ToNextInplace => { d = ct_in; ev.mod_switch_to_next_inplace(&mut d) }
            Form::ToNextNew => d = ev.mod_switch_to_next_new(&ct_in),
            Form::To => ev.mod_switch_to(&ct_in, &target_id, &mut d),
            Form::ToInplace => { d = ct_in; ev.mod_switch_to_inplace(&mut d, &target_id) }
            Form::ToNew => d = ev.mod_switch_to_new(&ct_in, &target_id),
            Form::RescaleToNext => ev.rescale_to_next(&ct_in, &mut d),
            Form::RescaleToNextInplace => { d = ct_in; ev.rescale_to_next_inplace(&mut d) }
            Form::RescaleToNextNew => d = ev.rescale_to_next_new(&ct_in),
            Form::RescaleTo => ev.rescale_to(&ct_in, &target_id, &mut d),
            Form::RescaleToInplace => { d = ct_in; ev.rescale_to_inplace(&mut d, &target_id) }
            Form::RescaleToNew => d = ev.rescale_to_new(&ct_in, &target_id),
            Form::PlainToNext => ev.mod_switch_to_next_plain(&pt_in, &mut dp),
            Form::PlainToNextInplace => { dp = pt_in; ev.mod_switch_to_next_plain_inplace(&mut dp) }
            Form::PlainToNextNew => dp = ev.mod_switch_to_next_plain_new(&pt_in),
            Form::PlainTo => ev.mod_switch_plain_to(&pt_in, &target_id, &mut dp),
            Form::PlainToInplace => { dp = pt_in; ev.mod_switch_plain_to_inplace(&mut dp, &target_id) }
            Form::PlainToNew => dp = ev.mod_switch_plain_to_new(&pt_in, &target_id),
        }
        (d, dp)
    };
    let label_base = |i: Info| i.label(format!("{:?}", scheme)).label(format!("{:?}", form)).label_if(expect_refusal, "refusal expected").label_if(cur_size > 2, "size>2")
        .label_if(!expect_refusal && tl >= src + 2, "multi-level").label_if(!expect_refusal && tl == src, "target = current level");
    let (rd, rp) = match timed(&key, Duration::from_secs(60), run) {
        Timed::Hang => return fail_key(format!("{key}/hang"), format!("{:?}/{:?} from level {src} to {:?} did not terminate within the deadline", scheme, form, target)),
        Timed::Panicked(p) => {
            if expect_refusal || either { return Verdict::Pass(label_base(Info::new(true))); }
            return fail_key(key, format!("{:?}/{:?} from level {src} to level {tl} (size {cur_size}) was refused or panicked: {p}", scheme, form));
        }
        Timed::Done(r) => r,
    };
    if expect_refusal { return fail_key(format!("{key}/not-refused"), format!("{:?}/{:?} from level {src} to {:?} returned normally but must be refused ({})", scheme, form, target, if rescale_wrong_scheme { "rescale outside CKKS" } else { "upward / past the last level / unknown target / scale does not fit" })); }

    // ---------------- judge the result
    let dropped: Vec<u64> = (src..tl).map(|l| *w.levels[l].moduli.last().unwrap()).collect();
    let nontrivial = tl >= src + 2 || cur_size > 2 || scheme == Scheme::BGV || form.is_plain();
    let info = label_base(Info::new(nontrivial));
    if form.is_plain() {
        check!(rp.is_ntt_form() && rp.parms_id() == &w.levels[tl].parms_id, "{:?}: plaintext not at target level {tl}", form);
        check!(rp.is_valid_for(&w.context), "{:?}: switched plaintext is not valid for the context", form);
        match scheme {
            Scheme::CKKS => {
                check!(rp.scale().to_bits() == scale.to_bits(), "{:?}: plaintext scale changed from {} to {}", form, scale, rp.scale());
                let k2 = w.levels[tl].moduli.len();
                check!(rp.data()[..] == pt.data()[..n * k2], "{:?}: switched plaintext is not the prefix of the original's RNS components", form);
                let out = match catch(|| ce.as_ref().unwrap().decode_new(&rp)) { Ok(o) => o, Err(p) => return fail_key(key, format!("decode of switched plaintext panicked: {p}")) };
                let tol = ckks_tolerance(n, c.ps.logn, scale, maxv, 2.0, (w.levels[tl].qbits + 63) / 64);
                if l2f(scale * maxv + 2.0) + 2.0 < lq(tl) { for i in 0..slots { check!((out[i] - cv[i]).norm() <= tol, "{:?}: switched plaintext decodes to {} instead of {}", form, out[i], cv[i]); } }
            }
            _ => {
                let p0 = be.as_ref().unwrap().encode_polynomial_new(&msg);
                let want = ev.transform_plain_to_ntt_new(&p0, &w.levels[tl].parms_id);
                check!(rp.data() == want.data(), "{:?}: switched NTT plaintext differs from transform_plain_to_ntt at the target level {tl} (from level {src})", form);
            }
        }
        return Verdict::Pass(info);
    }
    check!(rd.is_valid_for(&w.context), "{:?}: result is not valid for the context", form);
    check!(rd.parms_id() == &w.levels[tl].parms_id, "{:?}/{:?}: result is not on the requested level {tl} (source level {src})", scheme, form);
    check!(rd.size() == cur_size && rd.is_ntt_form() == (scheme != Scheme::BFV), "{:?}: result size {} / representation wrong", form, rd.size());
    match scheme {
        Scheme::BFV | Scheme::BGV => {
            check!(rd.scale() == 1.0, "{:?}: scale {}", form, rd.scale());
            if scheme == Scheme::BGV {
                let mut f = src_cf; for q in &dropped { f = rm::mulmod(f, rm::invmod(q % t, t).unwrap(), t); }
                check_eq!(rd.correction_factor(), f, "{:?}: BGV correction factor after dropping {:?}", form, dropped);
            } else { check_eq!(rd.correction_factor(), 1, "{:?}: BFV correction factor", form); }
            let mut b = lv; for (i, q) in dropped.iter().enumerate() { let _ = i; b = nm.modswitch(b, cur_size, *q); }
            if nm.assertable(b, lq(tl)) {
                let d = match catch(|| w.decryptor.decrypt_new(&rd)) { Ok(d) => d, Err(p) => return fail_key(key, format!("decrypt after switching panicked: {p}")) };
                let got = pad(d.data(), n);
                let want = pad(&exp_msg, n);
                if got != want { let i = (0..n).find(|&i| got[i] != want[i]).unwrap(); return fail_key(key, format!("{:?}/{:?} {src}->{tl} (size {cur_size}): message changed at coefficient {i}: {} instead of {}", scheme, form, got[i], want[i])); }
            } else { return Verdict::Pass(info.label("noise-unbounded")); }
        }
        Scheme::CKKS => {
            let mut e = lv.exp2(); let mut s = cur_scale;
            if form.is_rescale() {
                for q in &dropped { s /= *q as f64; e = e / (*q as f64) + s_poly(n, cur_size); }
                let ul = ulp_diff(rd.scale(), s);
                check!(if dropped.len() <= 1 { ul == 0 } else { ul <= 4 }, "{:?} {src}->{tl}: scale {:e} is not the source scale divided by each dropped prime ({:e}, {} ulp apart)", form, rd.scale(), s, ul);
                s = rd.scale();
            } else {
                check!(rd.scale().to_bits() == cur_scale.to_bits(), "{:?} {src}->{tl}: plain modulus switching changed the scale from {:e} to {:e}", form, cur_scale, rd.scale());
            }
            if s > 0.0 && l2f(s * max_abs + e) + SAFETY_BITS < lq(tl) - 1.0 && (s.log2() as isize) < w.levels[tl].qbits as isize {
                let d = match catch(|| w.decryptor.decrypt_new(&rd)) { Ok(d) => d, Err(p) => return fail_key(key, format!("decrypt after switching panicked: {p}")) };
                let out = match catch(|| ce.as_ref().unwrap().decode_new(&d)) { Ok(o) => o, Err(p) => return fail_key(key, format!("decode after switching panicked: {p}")) };
                let tol = ckks_tolerance(n, c.ps.logn, s, max_abs, e, (w.levels[tl].qbits + 63) / 64) + 256.0 * f64::EPSILON * (max_abs + 1.0);
                for i in 0..slots { if !((out[i] - exp_vals[i]).norm() <= tol) { return fail_key(key, format!("{:?} {src}->{tl} (size {cur_size}): slot {i} decodes to {} instead of {} (bound {:.3e})", form, out[i], exp_vals[i], tol)); } }
            } else { return Verdict::Pass(info.label("noise-unbounded")); }
        }
    }
    Verdict::Pass(info)
}

fn l2f(x: f64) -> f64 { if x <= 0.0 { f64::NEG_INFINITY } else { x.log2() } }

pub fn def() -> PropertyDef {
    PropertyDef {
        id: "C05",
        level: "exploration",
        rule: "exhaustive: N=8, chains of 1..4 (thorough 1..6) data levels x every (source level, target in {every level, key level, unknown id}) x 18 API forms (mod_switch_to_next / mod_switch_to / rescale_to_next / rescale_to / plaintext variants, each in destination, in-place and returning form) x 3 schemes x sizes 2..3; random: generated parameter sets (1..7 primes of 30..60 bits, N=2..16), sizes 2..4, random plaintexts / complex vectors and scales. Every call runs on a worker thread under a 60 s deadline (termination is part of the property). Result level, BGV correction factor (recomputed with u128), CKKS scale (bit-equal for mod switch and single-level rescale, <= 4 ulp over several levels), message (exact for BFV/BGV when the noise bound allows, within bound for CKKS), NTT plaintexts equal to a direct transform at the target level; upward, past-last, unknown-target and non-CKKS rescale requests must panic. non-trivial: target two or more levels below, or size > 2, or BGV, or a plaintext form.",
        assumptions: vec!["a 60 s deadline stands for non-termination (calls take microseconds)", "noise/error model DESIGN.md §4"],
        subs: vec![
            Sub::enumerate("all_pairs_small_chains_timed", exhaustive_cases, oracle),
            Sub::prop("random_switches_timed", 100_000, 800_000, 0.3, switch_case, oracle),
        ],
    }
}
