//! C02 — BFV/BGV evaluation is an exact ring homomorphism for every operation program.
use crate::gen::params::*;
use crate::prog::*;
use crate::runner::*;

pub fn run_program(c: &ProgCase, f: &mut Fails) -> Option<ProgStats> {
    let w = match World::new(&c.ps) { Ok(w) => w, Err(e) => { f.add("harness/params", e); return None; } };
    let mut m = match Machine::new(&w, c) { Ok(m) => m, Err(e) => { f.add("C02/setup", e); return None; } };
    let scheme = format!("{:?}", w.ps.scheme);
    // the fresh pool must decrypt to its plaintexts (C01's clause; here it guards the shadow itself)
    for i in 0..m.pool.len() {
        let e = &m.pool[i];
        if m.nm.assertable(e.lv, m.lq(0)) {
            match m.decrypt_padded(&e.ct) { Ok(d) => if d != e.msg { f.add("C02/fresh", format!("{scheme}: fresh pool element {i} does not decrypt to its plaintext")); return None; },
                                            Err(p) => { f.add("C02/fresh", format!("{scheme}: decrypting fresh pool element panicked: {p}")); return None; } }
        }
    }
    for (si, op) in c.ops.iter().enumerate() {
        let p = match m.plan(op) { Some(p) => p, None => { m.stats.skipped += 1; continue; } };
        m.note_stats(&p);
        let sizes = format!("sizes {}{}", m.pool[p.a].size, p.b.map(|b| format!("x{}", m.pool[b].size)).unwrap_or_default());
        let key = match (p.kind, p.b) {
            (OpKind::Mul, Some(b)) if m.pool[p.a].size != m.pool[b].size => format!("C02/{scheme}/Mul/unequal-sizes"),
            _ => format!("C02/{scheme}/{:?}", p.kind),
        };
        let res = match m.exec_new(&p) {
            Ok(r) => r,
            Err(pn) => { f.add(key, format!("{scheme} step {si} {:?} ({sizes}, level {}, ntt {}) panicked on well-typed operands: {pn}", p.kind, m.pool[p.a].level, m.pool[p.a].ntt)); return Some(m.stats); }
        };
        if let Err(e) = m.check_meta(&p, &res) { f.add(key, format!("{scheme} step {si} ({sizes}): {e}")); return Some(m.stats); }
        let lv = m.result_bound(&p, &res);
        let assertable = m.nm.assertable(lv, m.lq(p.level));
        if assertable {
            m.stats.asserted += 1;
            // model-honesty channel (never a violation): the measured budget must not be below what the bound predicts
            let coeff = if res.is_ntt_form() { catch(|| w.evaluator.transform_from_ntt_new(&res)).ok() } else { Some(res.clone()) };
            if let Some(cf) = coeff { if let Ok(b) = catch(|| w.decryptor.invariant_noise_budget(&cf)) {
                let predicted = m.lq(p.level) - lv - 2.0;
                if (b as f64) < predicted.floor() - 1.0 { m.stats.model_discrepancies += 1; }
            } }
            match m.decrypt_padded(&res) {
                Err(pn) => { f.add(key, format!("{scheme} step {si} {:?}: decrypting the result panicked: {pn}", p.kind)); return Some(m.stats); }
                Ok(d) => if d != p.msg {
                    let i = (0..w.n).find(|&i| d[i] != p.msg[i]).unwrap();
                    f.add(key, format!("{scheme} step {si} {:?} ({sizes}, level {}, operand ntt {}, t={}): decrypted coefficient {i} = {} but the program evaluates to {} in Z_t[X]/(X^N+1) (noise bound 2^{:.1} vs Q 2^{:.1})",
                        p.kind, p.level, m.pool[p.a].ntt, w.t(), d[i], p.msg[i], lv, m.lq(p.level)));
                    return Some(m.stats);
                }
            }
        } else { m.stats.unasserted += 1; }
        m.stats.steps += 1;
        let depth = m.pool[p.a].depth + matches!(p.kind, OpKind::Mul | OpKind::Square) as u32;
        m.pool.push(Elem { ct: res, msg: p.msg.clone(), level: p.level, size: p.size, ntt: p.ntt, lv, depth, fresh: false });
    }
    Some(m.stats)
}

fn oracle(c: &ProgCase) -> Verdict {
    let mut f = Fails::new();
    let st = run_program(c, &mut f);
    let st = match st { Some(s) => s, None => return f.verdict(Info::new(false)) };
    let nontrivial = st.asserted > 0 && st.has_mul && (st.unequal_sizes || st.size_ge4 || st.lower_level || st.cf_differ || st.ntt_operand);
    let info = Info::new(nontrivial).evals(st.steps.max(1) as u64).label(format!("{:?}", c.ps.scheme))
        .label_if(st.unequal_sizes, "unequal operand sizes").label_if(st.size_ge4, "size>=4").label_if(st.lower_level, "lower level")
        .label_if(st.cf_differ, "BGV factors differ").label_if(st.ntt_operand, "non-default representation").label_if(st.relin, "relinearize")
        .label_if(st.model_discrepancies > 0, "MODEL-DISCREPANCY: measured noise above the worst-case bound").label_if(st.asserted == 0, "nothing asserted").label_if(st.unasserted > 0, "some steps noise-unbounded").label(format!("max size {}", st.max_size.min(9)));
    f.verdict(info)
}

pub fn def() -> PropertyDef {
    PropertyDef {
        id: "C02",
        level: "exploration",
        rule: "random programs of 0..12 (thorough 0..30) operations {negate, add, sub, add_many, multiply, square, add/sub/multiply_plain (coefficient or NTT plain; monomial / constant / short / full / upper-half plaintexts), transform_to/from_ntt, relinearize, mod_switch_to_next} over a pool of 2..4 fresh BFV/BGV ciphertexts (pk or sk) under generated parameter sets (N=2..32 (thorough ..256), 3..5 primes of 45..60 bits, t of 2..50 bits of every kind). Each step picks operands the shadow says are well-typed (construction, not rejection); every result's metadata is checked and, when its worst-case noise bound (2^6 margin) is below Q_level/2, its decryption must equal the shadow polynomial. non-trivial: some step asserted, the program multiplies, and it has unequal operand sizes or a size >= 4 result or a lower level or differing BGV correction factors or a non-default representation operand. Second sub-check: the same programs (0..6 operations, multiplication-heavy) over plain moduli of 57..60 bits and 60-bit primes at N = 256..1024 (thorough 2048), where the integers formed inside BFV multiplication are largest relative to the auxiliary base.",
        assumptions: vec!["noise model DESIGN.md §4; BGV scaling factors of unequal-factor additions are derived from the result's recorded factor", "shadow arithmetic: naive negacyclic convolution modulo t"],
        subs: vec![
            Sub::prop("programs", 200_000, 1_500_000, 0.25, |t| prog_case(prog_param_cfg(t.pick(5, 8), vec![Scheme::BFV, Scheme::BGV]), t.pick(12, 30), 4), oracle),
            // plain moduli of 57..60 bits over 60-bit primes at N = 256..1024 (thorough 2048): the region where the products formed
            // inside BFV multiplication come closest to the capacity of the auxiliary base
            Sub::prop("programs_wide_plain", 12_000, 80_000, 0.1, |t| prog_case(ParamCfg { schemes: vec![Scheme::BFV, Scheme::BFV, Scheme::BGV], logn_lo: 8, logn_hi: t.pick(10, 11), logn_small: 9, k_lo: 4, k_hi: 5, bits_lo: 60, bits_hi: 60,
                t_kind: TKind::Any, t_bits_lo: 57, t_bits_hi: 60, need_keyswitching: true, allow_special_flag: false, always_expand: true }, 6, 8), oracle),
        ],
    }
}
