//! C17 — shared decryptor / key generator / evaluator behave as if calls ran one at a time.
//!
//! Threads run library calls on shared objects under the harness-owned scheduler (sched.rs, hook H3):
//! every interleaving of the lock-free points of the two secret-key-power caches and of the Galois
//! permutation-table cache is a choice sequence. Oracle: each thread's results equal what the same
//! thread computes alone on fresh objects (per-thread deterministic entropy, hook H2, makes key
//! generation a function of the call sequence); at every scheduling point each cache is a prefix
//! s, s^2, .., s^k of the true powers with k never decreasing, every filled permutation table is the
//! complete table of its element; no run may block.
use crate::gen::params::*;
use crate::refmath as rm;
use crate::runner::*;
use crate::sched::*;
use heathcliff::*;
use proptest::prelude::*;
use std::sync::atomic::{AtomicU32, Ordering};
use std::sync::{Arc, Mutex};
use std::time::Duration;

#[derive(Clone, Debug, PartialEq, Eq, serde::Serialize, serde::Deserialize)]
pub enum Op { Dec(u8), Budget(u8), Rlk(u8), GalKeys(Vec<u16>), Rotate(u16) }

#[derive(Clone, Debug, serde::Serialize, serde::Deserialize)]
pub struct ConcCase { pub ps: ParamSet, pub threads: Vec<Vec<Op>>, pub schedule: Vec<u16>, pub mode: u8 /* 0 scheduled (schedule), 1 all schedules, 2 free-running */, pub rounds: u16 }

type Res = Vec<Vec<u64>>;

struct Inputs { cts: Vec<Ciphertext>, gal_keys: GaloisKeys, elts: Vec<usize>, sk: SecretKey, powers: Vec<Vec<u64>>, poly: usize, tables: Vec<Vec<usize>> }
struct Shared { ctx: Arc<HeContext>, dec: Decryptor, kg: KeyGenerator, ev: Evaluator }

fn mk_shared(ps: &ParamSet, sk: &SecretKey) -> Shared {
    let ctx = HeContext::new(build_params(ps), ps.expand_chain, SecurityLevel::None);
    Shared { dec: Decryptor::new(ctx.clone(), sk.clone()), kg: KeyGenerator::from_sk(ctx.clone(), sk.clone()), ev: Evaluator::new(ctx.clone()), ctx }
}

fn flatten_keys(k: &KSwitchKeys) -> Vec<u64> {
    let mut out = vec![];
    for (i, row) in k.data().iter().enumerate() { out.push(0xabcd_0000 + i as u64); out.push(row.len() as u64); for pk in row { out.extend_from_slice(pk.data()); } }
    out
}
fn flatten_ct(c: &Ciphertext) -> Vec<u64> { let mut v = vec![c.size() as u64, c.is_ntt_form() as u64, c.scale().to_bits(), c.correction_factor()]; v.extend_from_slice(c.parms_id().as_ref()); v.extend_from_slice(c.data()); v }

fn exec(sh: &Shared, inp: &Inputs, op: &Op) -> Vec<u64> {
    match op {
        Op::Dec(s) => { let ct = &inp.cts[(*s as usize) % inp.cts.len()]; let p = sh.dec.decrypt_new(ct); let mut v = vec![p.coeff_count() as u64, p.scale().to_bits()]; v.extend_from_slice(p.parms_id().as_ref()); v.extend_from_slice(p.data()); v }
        Op::Budget(s) if sh.ctx.first_context_data().unwrap().is_bfv() => { let ct = &inp.cts[(*s as usize) % inp.cts.len()]; vec![sh.dec.invariant_noise_budget(ct) as u64] }
        Op::Budget(s) => exec(sh, inp, &Op::Dec(*s)),
        Op::Rlk(c) => { let k = sh.kg.verif_create_relin_keys(1 + (*c as usize) % 4, false); flatten_keys(k.as_kswitch_keys()) }
        Op::GalKeys(sel) => { let elts: Vec<usize> = sel.iter().map(|s| inp.elts[pick_idx(*s, inp.elts.len())]).collect(); let k = sh.kg.create_galois_keys_from_elts(&elts, false); flatten_keys(k.as_kswitch_keys()) }
        Op::Rotate(s) => { let e = inp.elts[pick_idx(*s, inp.elts.len())]; flatten_ct(&sh.ev.apply_galois_new(&inp.cts[0], e, &inp.gal_keys)) }
    }
}

fn run_ops(sh: &Shared, inp: &Inputs, entropy: u64, ops: &[Op]) -> Res {
    heathcliff::verif_hooks::set_entropy_override(Some(entropy));
    ops.iter().map(|op| match catch(|| exec(sh, inp, op)) { Ok(v) => v, Err(_) => vec![u64::MAX, 0xdead] }).collect()
}

fn build_inputs(w: &World) -> Result<Inputs, String> {
    let n = w.n; let scheme = w.ps.scheme;
    let plain = match scheme {
        Scheme::CKKS => catch(|| CKKSEncoder::new(w.context.clone()).encode_f64_polynomial_new(&(0..n).map(|i| (i % 5) as f64 - 2.0).collect::<Vec<_>>(), None, 2f64.powi(6)))?,
        _ => BatchEncoder::new(w.context.clone()).encode_polynomial_new(&(0..n).map(|i| (i as u64 * 7 + 3) % w.t()).collect::<Vec<_>>()),
    };
    let c2 = catch(|| w.encryptor.encrypt_new(&plain))?;
    let mut cts = vec![c2.clone()];
    for _ in 0..3 { match catch(|| w.evaluator.multiply_new(cts.last().unwrap(), &c2)) { Ok(c) => cts.push(c), Err(_) => break } }
    if cts.len() < 3 { return Err("could not build a size-3 ciphertext".into()); }
    let elts: Vec<usize> = (1..n.min(8)).map(|i| 2 * i + 1).chain([2 * n - 1]).collect::<std::collections::BTreeSet<_>>().into_iter().collect();
    let gal_keys = catch(|| w.keygen.create_galois_keys_from_elts(&elts, false))?;
    // true powers of the secret key in NTT form over the key modulus
    let km = &w.key_moduli; let poly = n * km.len();
    let s = w.sk.data().to_vec();
    let mut powers = vec![s.clone()];
    for j in 1..8 { let prev: &Vec<u64> = &powers[j - 1]; powers.push((0..poly).map(|x| rm::mulmod(prev[x], s[x], km[x / n])).collect()); }
    let tool = heathcliff::util::GaloisTool::new(w.ps.logn as usize);
    let tables: Vec<Vec<usize>> = (0..n).map(|i| tool.generate_table_ntt(2 * i + 1)).collect();
    Ok(Inputs { cts, gal_keys, elts, sk: w.sk.clone(), powers, poly, tables })
}

/// cache invariants, evaluated at every scheduling point
fn make_observer(sh: Arc<Shared>, inp: Arc<Inputs>) -> Observer {
    let prev = Mutex::new((1usize, 1usize, vec![false; inp.tables.len()]));
    Arc::new(move |tid, site| {
        let mut p = prev.lock().unwrap();
        let check_arr = |name: &str, arr: Vec<u64>, prev_k: &mut usize| -> Option<String> {
            if arr.len() % inp.poly != 0 || arr.is_empty() { return Some(format!("{name} cache has length {} (not a positive multiple of one key polynomial) seen by thread {tid} at {site}", arr.len())); }
            let k = arr.len() / inp.poly;
            if k < *prev_k { return Some(format!("{name} cache shrank from {} to {k} powers (seen by thread {tid} at {site})", *prev_k)); }
            *prev_k = k;
            for j in 0..k.min(inp.powers.len()) { if arr[j * inp.poly..(j + 1) * inp.poly] != inp.powers[j][..] { return Some(format!("{name} cache entry {j} is not s^{} (seen by thread {tid} at {site})", j + 1)); } }
            None
        };
        let (ref mut kd, ref mut kk, ref mut filled) = *p;
        match catch(|| sh.dec.verif_secret_key_array()) { Ok(a) => if let Some(f) = check_arr("decryptor key-power", a, kd) { return Some(f); }, Err(e) => return Some(format!("decryptor cache unreadable at {site}: {e}")) }
        match catch(|| sh.kg.verif_secret_key_array()) { Ok(a) => if let Some(f) = check_arr("key generator key-power", a, kk) { return Some(f); }, Err(e) => return Some(format!("key generator cache unreadable at {site}: {e}")) }
        match catch(|| heathcliff::verif_hooks::galois_tables(&sh.ctx)) {
            Ok(t) => for (i, tb) in t.iter().enumerate() {
                if tb.is_empty() { if filled[i] { return Some(format!("permutation table of element {} was filled and is empty again (thread {tid} at {site})", 2 * i + 1)); } }
                else { filled[i] = true; if *tb != inp.tables[i] { return Some(format!("permutation table of element {} is incomplete or wrong (thread {tid} at {site})", 2 * i + 1)); } }
            },
            Err(e) => return Some(format!("permutation-table cache unreadable at {site}: {e}")),
        }
        None
    })
}

static HANGS: AtomicU32 = AtomicU32::new(0);

fn bodies(sh: &Arc<Shared>, inp: &Arc<Inputs>, c: &ConcCase) -> Vec<Box<dyn FnOnce() -> Res + Send>> {
    c.threads.iter().enumerate().map(|(i, ops)| { let sh = sh.clone(); let inp = inp.clone(); let ops = ops.clone(); let e = c.ps.entropy.wrapping_add(1000 + i as u64);
        Box::new(move || run_ops(&sh, &inp, e, &ops)) as Box<dyn FnOnce() -> Res + Send> }).collect()
}

/// were two threads inside an update window of the same cache at the same time?
fn racing(trace: &[(usize, &'static str)], nthreads: usize) -> bool {
    let mut inside: Vec<Option<&'static str>> = vec![None; nthreads];
    for (t, site) in trace {
        let fam = |s: &'static str| if s.starts_with("dec.") { Some("dec") } else if s.starts_with("kg.") { Some("kg") } else if s.starts_with("gal.") { Some("gal") } else { None };
        if site.ends_with(".csk.copied") || *site == "gal.checked" { inside[*t] = fam(site); if (0..nthreads).any(|o| o != *t && inside[o] == inside[*t]) { return true; } }
        else if site.ends_with("after_csk") || *site == "gal.generated" || *site == "finish" { inside[*t] = None; }
    }
    false
}

fn oracle(c: &ConcCase) -> Verdict {
    let w = match World::new(&c.ps) { Ok(w) => w, Err(e) => return fail_key("harness/params", e) };
    let inp = match build_inputs(&w) { Ok(i) => Arc::new(i), Err(e) => return Verdict::Pass(Info::new(false).label(format!("inputs unavailable: {}", shorten_s(&e)))) };
    let nt = c.threads.len();
    // sequential reference: every thread's calls alone on fresh objects
    // (run on a worker thread under the deadline as well: a call that blocks even when run alone is a deadlock, not a hang of the check)
    let key = format!("C17/{:?}", c.ps.scheme);
    if HANGS.load(Ordering::SeqCst) >= 5 { return fail_key(format!("{key}/deadlock"), "earlier runs blocked; not executing further schedules"); }
    let deadline = Duration::from_secs(if HANGS.load(Ordering::SeqCst) > 0 { 2 } else { 60 });
    let mut reference: Vec<Res> = vec![];
    for (i, ops) in c.threads.iter().enumerate() {
        let sh = Arc::new(mk_shared(&c.ps, &inp.sk)); let inp2 = inp.clone(); let ops2 = ops.clone(); let e = c.ps.entropy.wrapping_add(1000 + i as u64);
        let (mut r, hang) = run_free(vec![Box::new(move || run_ops(&sh, &inp2, e, &ops2)) as Box<dyn FnOnce() -> Res + Send>], deadline);
        if hang { HANGS.fetch_add(1, Ordering::SeqCst); return fail_key(format!("{key}/deadlock"), format!("thread {i}'s calls {:?} block even when run alone on fresh objects", ops)); }
        match r.pop().flatten() { Some(Ok(v)) => reference.push(v), other => return fail_key("harness/reference", format!("sequential reference run failed: {:?}", other.map(|x| x.err()))) }
    }
    // largest key power any decrypting call asks for, and the largest asked for by a call that succeeds when run alone
    let need = |o: &Op| match o { Op::Dec(s) | Op::Budget(s) => Some(inp.cts[(*s as usize) % inp.cts.len()].size() - 1), _ => None };
    let max_dec_any = c.threads.iter().flatten().filter_map(need).max().unwrap_or(1).max(1);
    let max_dec_ok = c.threads.iter().zip(reference.iter()).flat_map(|(ops, rs)| ops.iter().zip(rs.iter())).filter(|(_, r)| !(r.first() == Some(&u64::MAX) && r.len() == 2)).filter_map(|(o, _)| need(o)).max().unwrap_or(1).max(1);
    let cache_end_ok = |kd: usize| kd >= max_dec_ok && kd <= max_dec_any;
    let mut info = Info::new(false).label(format!("{:?}", c.ps.scheme)).label(format!("threads={nt}"));
    for ops in &c.threads { for o in ops { info = info.label(match o { Op::Dec(_) => "Dec", Op::Budget(_) => "Budget", Op::Rlk(_) => "Rlk", Op::GalKeys(_) => "GalKeys", Op::Rotate(_) => "Rotate" }); } }
    let judge = |results: &[Option<Result<Res, String>>], what: &str| -> Option<(String, String)> {
        for (i, r) in results.iter().enumerate() {
            match r {
                None => return Some((format!("{key}/deadlock"), format!("{what}: thread {i} never finished"))),
                Some(Err(p)) => return Some((format!("{key}/panic"), format!("{what}: thread {i} panicked outside a library call: {p}"))),
                Some(Ok(res)) => for (j, (got, want)) in res.iter().zip(reference[i].iter()).enumerate() {
                    if got != want { let refused = got.first() == Some(&u64::MAX) && got.len() == 2;
                        return Some((format!("{key}/result/{}", op_name(&c.threads[i][j])), format!("{what}: thread {i} call {j} ({:?}) {} while the same call sequence run alone {}", c.threads[i][j], if refused { "panicked".to_string() } else { format!("returned a different result (first differing word {})", got.iter().zip(want.iter()).position(|(a, b)| a != b).unwrap_or(got.len().min(want.len()))) }, if want.first() == Some(&u64::MAX) && want.len() == 2 { "panics" } else { "succeeds" }))); }
                },
            }
        }
        None
    };
    match c.mode {
        2 => {
            let rounds = c.rounds.max(1) as u64;
            for r in 0..rounds {
                let sh = Arc::new(mk_shared(&c.ps, &inp.sk));
                let (results, hang) = run_free(bodies(&sh, &inp, c), deadline);
                if hang { HANGS.fetch_add(1, Ordering::SeqCst); return fail_key(format!("{key}/deadlock"), format!("free-running round {r}: threads did not finish within {deadline:?}")); }
                if let Some((k, m)) = judge(&results, &format!("free-running round {r}")) { return fail_key(k, m); }
                if let Some(f) = (make_observer(sh.clone(), inp.clone()))(0, "end") { return fail_key(format!("{key}/cache"), format!("free-running round {r}: {f}")); }
                if !cache_end_ok(sh.dec.verif_secret_key_array().len() / inp.poly) { return fail_key(format!("{key}/cache"), format!("free-running round {r}: decryptor cache holds {} powers, the requests need {max_dec_ok}..{max_dec_any}", sh.dec.verif_secret_key_array().len() / inp.poly)); }
            }
            info.nontrivial = nt >= 2; info = info.evals(rounds).label("free-running");
            Verdict::Pass(info)
        }
        _ => {
            let mut schedule = c.schedule.clone(); let exact = c.mode == 1; let mut evals = 0u64; let mut any_race = false;
            loop {
                let sh = Arc::new(mk_shared(&c.ps, &inp.sk));
                let out = run_scheduled(&schedule, exact, make_observer(sh.clone(), inp.clone()), bodies(&sh, &inp, c), deadline);
                evals += 1;
                let what = format!("schedule {:?} (trace {})", out.taken, out.trace.iter().map(|(t, s)| format!("{t}:{s}")).collect::<Vec<_>>().join(" "));
                if out.hang { HANGS.fetch_add(1, Ordering::SeqCst); return fail_key(format!("{key}/deadlock"), format!("{what}: a thread blocked while every other thread waits at a lock-free scheduling point")); }
                if let Some(f) = out.observer_fail { return fail_key(format!("{key}/cache"), format!("{what}: {f}")); }
                if let Some((k, m)) = judge(&out.results, &what) { return fail_key(k, m); }
                let kd = sh.dec.verif_secret_key_array().len() / inp.poly;
                if !cache_end_ok(kd) { return fail_key(format!("{key}/cache"), format!("{what}: decryptor cache ends with {kd} powers, the requests need {max_dec_ok}..{max_dec_any}")); }
                any_race |= racing(&out.trace, nt);
                if !exact { break; }
                match next_schedule(&out.branching, &out.taken) { Some(s) => schedule = s, None => break }
                if evals >= 400_000 { info = info.label("schedule enumeration truncated"); break; }
            }
            info.nontrivial = any_race; info = info.evals(evals).label_if(any_race, "two threads inside an update window").label(if exact { "all schedules" } else { "one schedule" });
            Verdict::Pass(info)
        }
    }
}

fn op_name(o: &Op) -> &'static str { match o { Op::Dec(_) => "Dec", Op::Budget(_) => "Budget", Op::Rlk(_) => "Rlk", Op::GalKeys(_) => "GalKeys", Op::Rotate(_) => "Rotate" } }
fn shorten_s(s: &str) -> String { s.chars().take(60).collect() }

fn conc_cfg(tier: Tier) -> ParamCfg {
    ParamCfg { schemes: vec![Scheme::BFV, Scheme::BGV, Scheme::CKKS], logn_lo: 2, logn_hi: tier.pick(4, 6), logn_small: 3, k_lo: 2, k_hi: 4, bits_lo: 40, bits_hi: 60, t_kind: TKind::Any, t_bits_lo: 4, t_bits_hi: 16,
        need_keyswitching: true, allow_special_flag: false, always_expand: false }
}

fn op_strategy() -> BoxedStrategy<Op> {
    prop_oneof![5 => (0u8..4).prop_map(Op::Dec), 1 => (0u8..4).prop_map(Op::Budget), 4 => (0u8..4).prop_map(Op::Rlk), 3 => proptest::collection::vec(any::<u16>(), 1..3).prop_map(Op::GalKeys), 3 => any::<u16>().prop_map(Op::Rotate)].boxed()
}

fn random_case(tier: Tier, mode: u8) -> BoxedStrategy<ConcCase> {
    (conc_cfg(tier).strategy(), proptest::collection::vec(proptest::collection::vec(op_strategy(), 1..3), if mode == 2 { 2..7usize } else { 2..5usize }), proptest::collection::vec(any::<u16>(), 0..60), 1u16..6)
        .prop_map(move |(ps, threads, schedule, rounds)| ConcCase { ps, threads, schedule, mode, rounds }).boxed()
}

/// every schedule of every pair of single calls on the same cache (and a few cross-cache pairs), per scheme
fn exhaustive(tier: Tier) -> Vec<ConcCase> {
    let mut out = vec![];
    for scheme in [Scheme::BFV, Scheme::BGV, Scheme::CKKS] {
        let logn = 2u32;
        let moduli = crate::gen::ntt_primes_distinct(logn, &[55, 50, 54, 56], &[0, 1, 2, 3]);
        let t = if scheme == Scheme::CKKS { 0 } else { crate::gen::ntt_prime(logn, 8, 0) };
        let ps = ParamSet { scheme, logn, moduli, t, expand_chain: false, special_flag: false, entropy: 4242 };
        let mut ops: Vec<Op> = vec![Op::Dec(0), Op::Dec(1), Op::Dec(2), Op::Dec(3), Op::Rlk(0), Op::Rlk(1), Op::Rlk(2), Op::GalKeys(vec![0]), Op::GalKeys(vec![0, 30000]), Op::Rotate(0), Op::Rotate(30000)];
        if scheme == Scheme::BFV { ops.push(Op::Budget(2)); }
        for a in &ops { for b in &ops {
            let same = |x: &Op, y: &Op| matches!((x, y), (Op::Dec(_) | Op::Budget(_), Op::Dec(_) | Op::Budget(_)) | (Op::Rlk(_), Op::Rlk(_)) | (Op::GalKeys(_) | Op::Rotate(_), Op::GalKeys(_) | Op::Rotate(_)));
            if !same(a, b) { continue; }
            out.push(ConcCase { ps: ps.clone(), threads: vec![vec![a.clone()], vec![b.clone()]], schedule: vec![], mode: 1, rounds: 0 });
        } }
        // three threads on the decryptor / key generator, and two calls per thread (thorough)
        if tier == Tier::Thorough {
            out.push(ConcCase { ps: ps.clone(), threads: vec![vec![Op::Dec(1)], vec![Op::Dec(2)], vec![Op::Dec(0)]], schedule: vec![], mode: 1, rounds: 0 });
            if scheme == Scheme::BFV { out.push(ConcCase { ps: ps.clone(), threads: vec![vec![Op::Dec(1)], vec![Op::Dec(2)], vec![Op::Dec(3)]], schedule: vec![], mode: 1, rounds: 0 }); }
            out.push(ConcCase { ps: ps.clone(), threads: vec![vec![Op::Rlk(0)], vec![Op::Rlk(1)], vec![Op::Rlk(2)]], schedule: vec![], mode: 1, rounds: 0 });
            out.push(ConcCase { ps: ps.clone(), threads: vec![vec![Op::Dec(1), Op::Dec(3)], vec![Op::Dec(2), Op::Dec(0)]], schedule: vec![], mode: 1, rounds: 0 });
            out.push(ConcCase { ps: ps.clone(), threads: vec![vec![Op::Rlk(0), Op::Rlk(2)], vec![Op::Rlk(1), Op::GalKeys(vec![0])]], schedule: vec![], mode: 1, rounds: 0 });
        }
    }
    out
}

pub fn def() -> PropertyDef {
    PropertyDef {
        id: "C17",
        level: "exploration",
        rule: "2..4 threads (free-running: 2..6), each with 1..2 calls on one shared Decryptor / KeyGenerator / Evaluator: decrypt or noise budget of ciphertexts of size 2..5 (key powers 1..4), relinearization keys for 1..4 powers, Galois keys for 1..2 elements, Galois automorphisms (cold permutation-table cache), BFV/BGV/CKKS, N = 4..16 (thorough 64). exhaustive: every interleaving of the lock-free points (hook H3: before / between / after the read and write phases of both key-power caches, around the check-then-generate of the permutation tables) for every pair of calls on the same cache and for three decrypting threads; random: generated choice sequences for 2..4 threads; free-running: real parallel execution, 1..5 rounds. Oracle: every thread's results equal the results of the same calls run alone (same bytes; per-thread entropy H2), each cache is at every point a prefix of the true powers of s / a set of complete tables and never shrinks, the decryptor cache ends with exactly the largest requested power, no thread blocks. non-trivial: two threads were inside an update window of the same cache at the same time (free-running: >= 2 threads).",
        assumptions: vec!["the scheduler serializes execution between the hook points, so data races inside a locked region are only reachable by the free-running sub-check", "yield points are outside every lock scope (H3); a blocked run is reported as a deadlock"],
        subs: vec![Sub::enumerate("all_schedules_pairs_timed", exhaustive, oracle), Sub::prop("random_schedules_timed", 6_000, 120_000, 0.25, |t| random_case(t, 0), oracle), Sub::prop("free_running_timed", 1_500, 40_000, 0.9, |t| random_case(t, 2), oracle)],
    }
}
