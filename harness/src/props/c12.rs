//! C12 — CKKS encoding is the rounded scaled canonical embedding on every path.
use crate::bigint::{centered, crt_compose, BigI, BigU};
use crate::gen::params::*;
use crate::gen::*;
use crate::runner::*;
use crate::shadow::ckks_tolerance;
use heathcliff::*;
use num_complex::Complex64;
use proptest::prelude::*;
use serde::{Deserialize, Serialize};
use std::sync::Arc;

#[derive(Clone, Copy, Debug, PartialEq, Eq, Serialize, Deserialize)]
pub enum Entry { Array, SingleReal, SingleComplex, Integer, CoeffList }

#[derive(Clone, Debug, Serialize, Deserialize)]
pub struct EncCase {
    pub logn: u32, pub moduli: Vec<u64>,
    pub entry: Entry, pub level_sel: u16,
    /// scale = 2^scale_e * (1 + scale_m / 2^20) ; scale_kind selects refusal cases
    pub scale_e: i32, pub scale_m: u32, pub scale_kind: u8,
    /// value magnitude exponent: |values| < 2^vexp
    pub vexp: i32,
    pub vals: Vec<(i32, i32)>, pub len_sel: u16, pub ival: i64, pub ikind: u8,
}

struct Ctx { ctx: Arc<HeContext>, levels: Vec<Level>, n: usize }
fn mk_ctx(logn: u32, moduli: &[u64]) -> Result<Ctx, String> {
    let ps = ParamSet { scheme: Scheme::CKKS, logn, moduli: moduli.to_vec(), t: 0, expand_chain: true, special_flag: false, entropy: 0 };
    let ctx = HeContext::new(build_params(&ps), true, SecurityLevel::None);
    if !ctx.parameters_set() { return Err("context rejected".into()); }
    let mut levels = vec![]; let mut cd = ctx.first_context_data();
    while let Some(c) = cd { let m: Vec<u64> = c.parms().coeff_modulus().iter().map(|x| x.value()).collect(); let q = BigU::product(&m); levels.push(Level { parms_id: *c.parms_id(), qbits: q.bits(), q, moduli: m }); cd = c.next_context_data(); }
    Ok(Ctx { ctx, levels, n: 1usize << logn })
}

fn enc_case(tier: Tier) -> BoxedStrategy<EncCase> {
    let maxlog = tier.pick(8u32, 11u32);
    let entry = prop_oneof![4 => Just(Entry::Array), 2 => Just(Entry::SingleReal), 1 => Just(Entry::SingleComplex), 3 => Just(Entry::Integer), 3 => Just(Entry::CoeffList)];
    (prop_oneof![8 => 1u32..=5, 2 => 6u32..=maxlog], proptest::collection::vec((20u32..=60, any::<u8>()), 1..=19), entry, any::<u16>(), any::<u16>(), any::<u32>(), 0u8..12, -30i32..50, any::<u16>(), any::<i64>(), 0u8..12)
        .prop_flat_map(|(logn, specs, entry, level_sel, se, sm, scale_kind, vexp, len_sel, ival, ikind)| {
            let bits: Vec<u32> = specs.iter().map(|s| s.0.max(logn + 2)).collect();
            let sels: Vec<u8> = specs.iter().map(|s| s.1).collect();
            let moduli = ntt_primes_distinct(logn, &bits, &sels);
            let n = 1usize << logn;
            (Just(logn), Just(moduli), Just(entry), Just(level_sel), Just(se), Just(sm), Just(scale_kind), Just(vexp), proptest::collection::vec((any::<i32>(), any::<i32>()), n), Just(len_sel), Just(ival), Just(ikind))
        }).prop_map(|(logn, moduli, entry, level_sel, se, sm, scale_kind, vexp, vals, len_sel, ival, ikind)|
            EncCase { logn, moduli, entry, level_sel, scale_e: se as i32, scale_m: sm % (1 << 20), scale_kind, vexp, vals, len_sel, ival, ikind }).boxed()
}

/// exact integer value of an integer-valued f64
fn f64_to_bigi(x: f64) -> BigI {
    if x == 0.0 { return BigI::zero(); }
    let bits = x.abs().to_bits();
    let exp = ((bits >> 52) & 0x7ff) as i32 - 1075;
    let mant = (bits & ((1u64 << 52) - 1)) | (1u64 << 52);
    let m = BigU::from_u64(mant);
    let mag = if exp >= 0 { m.shl(exp as usize) } else { m.shr((-exp) as usize) };
    BigI::new(x < 0.0, mag)
}

/// plaintext (NTT form) -> centered integer coefficients via per-prime inverse NTT and own CRT
fn coeffs_of(c: &Ctx, level: usize, p: &Plaintext) -> Vec<BigI> {
    let n = c.n; let moduli = &c.levels[level].moduli; let k = moduli.len();
    let cd = c.ctx.get_context_data(&c.levels[level].parms_id).unwrap();
    let mut d = p.data().clone();
    for (j, tb) in cd.small_ntt_tables().iter().enumerate() { tb.inverse_ntt_negacyclic_harvey(&mut d[j * n..(j + 1) * n]); }
    (0..n).map(|i| centered(&crt_compose(&(0..k).map(|j| d[j * n + i]).collect::<Vec<_>>(), moduli), &c.levels[level].q)).collect()
}

/// naive scaled inverse canonical embedding: coefficient i = (2 scale / N) Re( sum_k z_k conj(zeta_k)^i ), zeta_k = exp(2 pi i 3^k / 2N)
fn reference_coeffs(n: usize, vals: &[Complex64], scale: f64) -> Vec<f64> {
    let slots = n / 2; let m = 2 * n;
    let mut out = vec![0.0f64; n];
    if slots == 0 { return out; }
    let mut e = vec![0usize; slots]; let mut pos = 1usize;
    for k in 0..slots { e[k] = pos; pos = (pos * 3) % m; }
    for i in 0..n {
        // compensated (Kahan) summation
        let (mut s, mut comp) = (0.0f64, 0.0f64);
        for k in 0..vals.len().min(slots) {
            let ang = -2.0 * std::f64::consts::PI * (((e[k] * i) % m) as f64) / m as f64;
            let term = vals[k].re * ang.cos() - vals[k].im * ang.sin();
            let y = term - comp; let t = s + y; comp = (t - s) - y; s = t;
        }
        out[i] = s * 2.0 / n as f64 * scale;
    }
    out
}

fn oracle(c: &EncCase) -> Verdict {
    let cx = match mk_ctx(c.logn, &c.moduli) { Ok(x) => x, Err(e) => return fail_key("harness/params", e) };
    let n = cx.n; let slots = (n / 2).max(1);
    let enc = CKKSEncoder::new(cx.ctx.clone());
    let level = pick_idx(c.level_sel, cx.levels.len());
    let lid = cx.levels[level].parms_id; let qbits = cx.levels[level].qbits as f64;
    let qwords = (cx.levels[level].qbits + 63) / 64;
    let key = format!("C12/{:?}", c.entry);
    // ---- scale: admissible 2^0 .. 2^(qbits-2), or a refusal case
    let refusal_scale = match c.scale_kind { 0 => Some(0.0), 1 => Some(-(2f64.powi(20))), 2 => Some((qbits - 1.0).exp2()), 3 => Some((qbits + 3.0).exp2()), _ => None };
    let adm_hi = (qbits - 2.0).max(0.0);
    let se = (c.scale_e.rem_euclid(adm_hi as i32 + 1)) as f64;
    // scale_kind 4: exact powers of two whose product lands on (or next to) a word boundary of the multi-word decomposition
    // (scaled magnitude exactly 2^63, 2^64, 2^65, 2^127, 2^128, ...): the boundary values of the 64- / 128-bit / multi-word paths
    let pow2 = c.scale_kind == 4;
    // scale_kind 5 ("dense"): coefficient-list / single-real inputs with a full 53-bit mantissa under a power-of-two scale, so that
    // the scaled value is exactly an (odd or even) integer of 2^52..2^54 or an exact half-integer tie of 2^51..2^52 — the region where
    // adding 0.5 in double precision is no longer exact and where round-half-away-from-zero differs from every other tie rule
    let dense = c.scale_kind == 5 && matches!(c.entry, Entry::CoeffList | Entry::SingleReal);
    let se = if dense { se.min(900.0) } else { se };
    let scale = refusal_scale.unwrap_or_else(|| { let s = se.exp2() * (1.0 + c.scale_m as f64 / (1u64 << 20) as f64); if !pow2 && !dense && s.log2() + 1.0 < qbits - 1e-9 { s } else { se.exp2() } });
    let dsh = (c.vexp.rem_euclid(4) - 1) as f64;
    let dv = |a: i32, b: i32| { let mag = (1u64 << 52) | ((a.unsigned_abs() as u64 & 0x3fff_ffff) << 22) | ((b as u32 as u64) >> 10); (if a < 0 { -1.0 } else { 1.0 }) * (mag as f64) * (dsh - se).exp2() };
    const BOUNDARY: [i32; 12] = [63, 64, 65, 127, 128, 129, 191, 192, 193, 255, 256, 257];
    let bexp = BOUNDARY[c.vexp.rem_euclid(BOUNDARY.len() as i32) as usize] as f64;
    // ---- values
    let vm = |m: i32| if pow2 { (if m < 0 { -1.0 } else { 1.0 }) * (bexp - se).exp2() } else { (m as f64) * ((c.vexp - 31) as f64).exp2() };
    let cnt = match c.len_sel % 5 { 0 => 1, 1 => slots, 2 => 0, _ => 1 + pick_idx(c.len_sel, slots) };
    let mut vals: Vec<Complex64> = c.vals.iter().take(cnt).map(|(a, b)| Complex64::new(vm(*a), if c.len_sel & 0x100 != 0 { 0.0 } else { vm(*b) })).collect();
    if c.entry == Entry::Array && vals.is_empty() { vals.push(Complex64::new(vm(c.vals[0].0), 0.0)); }
    let lcnt = match c.len_sel % 5 { 0 => 1, 1 => n, 2 => 0, _ => 1 + pick_idx(c.len_sel, n) };
    let list: Vec<f64> = c.vals.iter().take(lcnt).map(|(a, b)| if dense { dv(*a, *b) } else { vm(*a) }).collect();
    let single = if dense { dv(c.vals[0].0, c.vals[0].1) } else { vm(c.vals[0].0) };
    let ival: i64 = match c.ikind { 0 => 0, 1 => 1, 2 => -1, 3 => -((1i64 << 40) + 12345), 4 => (c.moduli[0] as i64) + 1, 5 => -((c.moduli[0] as i64) + 1), 6 => c.ival >> (c.ival.unsigned_abs() % 60),
        // exact multiples of a prime of the chain, either sign (residue 0 in that component)
        8 | 9 | 10 | 11 => { let q = c.moduli[(c.ival.unsigned_abs() % c.moduli.len() as u64) as usize] as i64; let k = 1 + ((c.ival.unsigned_abs() >> 8) % 3) as i64; let v = q.checked_mul(k).unwrap_or(q); if c.ikind % 2 == 0 { -v } else { v } }
        _ => c.ival };
    // magnitude of the scaled input (what must fit the modulus)
    let max_in = match c.entry { Entry::Array => vals.iter().map(|z| z.norm()).fold(0.0, f64::max), Entry::SingleReal => single.abs(), Entry::SingleComplex => vals.first().map_or(0.0, |z| z.norm()),
        Entry::Integer => ival.unsigned_abs() as f64, Entry::CoeffList => list.iter().map(|x| x.abs()).fold(0.0, f64::max) };
    let eff_scale = if c.entry == Entry::Integer { 1.0 } else { scale };
    // what must fit the modulus is the largest *coefficient* of the scaled preimage; for the vector paths that is the
    // inverse embedding's largest coefficient (smaller than the largest slot when few slots are set)
    let full_vec: Vec<Complex64> = if c.entry == Entry::SingleComplex { vec![vals.first().cloned().unwrap_or_default(); slots] } else { vals.clone() };
    let reference: Vec<f64> = if matches!(c.entry, Entry::Array | Entry::SingleComplex) { reference_coeffs(n, &full_vec, scale.abs().max(f64::MIN_POSITIVE)) } else { vec![] };
    let coef_mag = if matches!(c.entry, Entry::Array | Entry::SingleComplex) { reference.iter().map(|x| x.abs()).fold(0.0, f64::max) } else { max_in * eff_scale.abs() };
    let scaled_bits = if coef_mag >= 1.0 { coef_mag.log2() } else { 0.0 };
    // half of the cases go through the destination forms, into a plaintext / vector that was used before (a constant at the
    // first level: every data word non-zero, other level, other scale)
    let used = c.len_sel & 1 == 1;
    let run = || -> Plaintext { if used {
        let mut d = enc.encode_i64_single_new(7, Some(cx.levels[0].parms_id));
        match c.entry {
            Entry::Array => enc.encode_c64_array(&vals, Some(lid), scale, &mut d),
            Entry::SingleReal => enc.encode_f64_single(single, Some(lid), scale, &mut d),
            Entry::SingleComplex => enc.encode_c64_single(vals.first().cloned().unwrap_or_default(), Some(lid), scale, &mut d),
            Entry::Integer => enc.encode_i64_single(ival, Some(lid), &mut d),
            Entry::CoeffList => enc.encode_f64_polynomial(&list, Some(lid), scale, &mut d),
        }
        d
    } else { match c.entry {
        Entry::Array => enc.encode_c64_array_new(&vals, Some(lid), scale),
        Entry::SingleReal => enc.encode_f64_single_new(single, Some(lid), scale),
        Entry::SingleComplex => enc.encode_c64_single_new(vals.first().cloned().unwrap_or_default(), Some(lid), scale),
        Entry::Integer => enc.encode_i64_single_new(ival, Some(lid)),
        Entry::CoeffList => enc.encode_f64_polynomial_new(&list, Some(lid), scale),
    } } };
    let r = catch(run);
    // ---- refusal clauses
    let bad_scale = c.entry != Entry::Integer && refusal_scale.is_some();
    if bad_scale || scaled_bits >= qbits + 1.0 {
        return match r { Err(_) => Verdict::Pass(Info::new(true).label("refusal").label(format!("{:?}", c.entry))),
            Ok(_) => fail_key(format!("{key}/not-refused"), format!("{:?}: scale {scale:e} / scaled magnitude 2^{scaled_bits:.1} does not fit the {qbits}-bit modulus but the input was encoded", c.entry)) };
    }
    // inputs within 3 bits of the modulus size may legitimately be refused or accepted (sign bit / rounding of the library's bit-count rule)
    let borderline = scaled_bits + 3.0 >= qbits;
    let p = match r { Ok(p) => p, Err(pn) => { if borderline { return Verdict::Pass(Info::new(false).label("borderline magnitude refused")); }
        let k2 = if c.entry == Entry::CoeffList && list.is_empty() { format!("{key}/empty-list") } else { key.clone() };
        return fail_key(k2, format!("{:?} refused or panicked on an admissible input (scale 2^{:.2}, scaled magnitude 2^{scaled_bits:.1}, level {level} with {qbits} bits, {} values): {pn}", c.entry, eff_scale.log2(), match c.entry { Entry::CoeffList => list.len(), _ => vals.len() })); } };
    if borderline { return Verdict::Pass(Info::new(false).label("borderline magnitude accepted")); }
    check!(p.is_ntt_form() && p.parms_id() == &lid && p.is_valid_for(&cx.ctx), "{:?}: plaintext not a valid NTT-form plaintext at level {level}", c.entry);
    check!(p.scale().to_bits() == eff_scale.to_bits(), "{:?}: plaintext scale {:e}, expected {:e}", c.entry, p.scale(), eff_scale);
    let coeffs = coeffs_of(&cx, level, &p);
    let logn = c.logn as f64;
    let class = if scaled_bits > 128.0 { ">128 bits" } else if scaled_bits > 64.0 { "65..128 bits" } else { "<=64 bits" };
    let mut neg = false;
    match c.entry {
        Entry::Integer | Entry::SingleReal => {
            let want = if c.entry == Entry::Integer { BigI::from_i64(ival) } else { f64_to_bigi((single * scale).round()) };
            neg = want.neg;
            let k2 = if c.entry == Entry::Integer && ival < 0 && c.moduli.iter().take(cx.levels[level].moduli.len()).any(|q| ival.unsigned_abs() > *q) { format!("{key}/negative-above-prime") } else { key.clone() };
            if coeffs[0] != want { return fail_key(k2, format!("{:?}: constant coefficient is {} but the input scales to {} (level {level}, moduli {:?})", c.entry, coeffs[0].to_string_hex(), want.to_string_hex(), cx.levels[level].moduli)); }
            for i in 1..n { if !coeffs[i].is_zero() { return fail_key(k2, format!("{:?}: coefficient {i} of a constant encoding is {}", c.entry, coeffs[i].to_string_hex())); } }
        }
        Entry::CoeffList => {
            for i in 0..n {
                let want = if i < list.len() { f64_to_bigi((list[i] * scale).round()) } else { BigI::zero() };
                if want.neg { neg = true; }
                if coeffs[i] != want { return fail_key(format!("{key}/{class}"), format!("coefficient list: coefficient {i} is {} but round(v*scale) = {} (v={:e}, scale 2^{:.2}, size class {class})", coeffs[i].to_string_hex(), want.to_string_hex(), list.get(i).cloned().unwrap_or(0.0), scale.log2())); }
            }
        }
        Entry::Array | Entry::SingleComplex => {
            let full = &full_vec;
            neg = full.iter().any(|z| z.re < 0.0 || z.im != 0.0);
            {
                let m = max_in * scale;
                let tol = 0.5 + 256.0 * f64::EPSILON * (logn + 2.0) * (m + 1.0);
                for i in 0..n {
                    let d = coeffs[i].sub(&f64_to_bigi(reference[i].round())).to_f64().abs();
                    if !(d <= tol + 1.0) { return fail_key(key, format!("{:?}: integer coefficient {i} differs from the scaled inverse embedding by {d:.3e} (> {tol:.3e}); scale 2^{:.1}, class {class}", c.entry, scale.log2())); }
                }
            }
        }
    }
    // decoding returns the input within the rounding-plus-double-precision bound
    let tol = ckks_tolerance(n, c.logn, eff_scale, max_in, 1.0, qwords) + 8.0 * f64::EPSILON * max_in;
    let out = match catch(|| if used { let mut d = vec![Complex64::new(1e300, -1e300); slots + 3]; enc.decode(&p, &mut d); d } else { enc.decode_new(&p) }) { Ok(o) => o, Err(pn) => return fail_key(key, format!("decode of a freshly encoded plaintext panicked: {pn}")) };
    match c.entry {
        Entry::CoeffList => {
            let dl = match catch(|| if used { let mut d = vec![-1e300f64; n + 3]; enc.decode_polynomial(&p, &mut d); d } else { enc.decode_polynomial_new(&p) }) { Ok(o) => o, Err(pn) => return fail_key(key, format!("decode_polynomial panicked: {pn}")) };
            check!(dl.len() == n, "decode_polynomial returned {} coefficients for N={n}", dl.len());
            let tolc = tol / n as f64 * 4.0 + 1.0 / scale;
            for i in 0..n { let want = list.get(i).cloned().unwrap_or(0.0); check!((dl[i] - want).abs() <= tolc, "decode_polynomial: coefficient {i} = {:e}, input {:e} (bound {:e})", dl[i], want, tolc); }
        }
        _ => {
            check!(out.len() == slots, "decode returned {} slots instead of {slots}", out.len());
            for i in 0..slots {
                let want = match c.entry { Entry::Array => vals.get(i).cloned().unwrap_or_default(), Entry::SingleComplex => vals.first().cloned().unwrap_or_default(),
                    Entry::SingleReal => Complex64::new(single, 0.0), _ => Complex64::new(ival as f64, 0.0) };
                let d = (out[i] - want).norm();
                if !(d <= tol) { return fail_key(key, format!("{:?}: decode slot {i} = {} but the input was {} (|diff| {d:.3e} > bound {tol:.3e}; scale 2^{:.1}, class {class})", c.entry, out[i], want, eff_scale.log2())); }
            }
        }
    }
    let above_prime = c.entry == Entry::Integer && cx.levels[level].moduli.iter().any(|q| ival.unsigned_abs() > *q);
    Verdict::Pass(Info::new(neg || scaled_bits > 64.0 || level > 0 || above_prime).label(format!("{:?}", c.entry)).label(class).label_if(neg, "negative/complex").label_if(level > 0, "lower level")
        .label_if(above_prime, "integer above a prime").label_if(dense, "53-bit mantissa, power-of-two scale").label_if(dense && dsh == 0.0, "scaled value an integer of 2^52..2^53").label_if(dense && dsh < 0.0, "scaled value an exact half-integer tie").label_if(used, "destination forms into used objects").label(format!("primes:{}", match c.moduli.len() { 1 => "1", 2..=4 => "2-4", 5..=9 => "5-9", _ => "10-19" })))
}

pub fn def() -> PropertyDef {
    PropertyDef {
        id: "C12",
        level: "exploration",
        rule: "random: chains of 1..19 NTT primes of 20..60 bits (N=2..256, thorough 2048), every level, five entry points (complex vector, single real, single complex, integer, coefficient list), scales 2^0..2^(log Q-2) with non-power-of-two mantissas so that scaled magnitudes fall below 2^64, between 2^64 and 2^128 and above 2^128; values with both signs, imaginary parts, magnitudes 2^-30..2^50; integers 0, +-1, +-(q_0+1), -(2^40+12345), random; coefficient lists and single reals with a full 53-bit mantissa under a power-of-two scale (scaled value an exact integer of 2^52..2^55 of either parity, or an exact half-integer tie); lists of length 0, 1, partial, full; refusal cases (scale <= 0, scale >= 2^(bits Q - 1), scaled magnitude >= 2^(bits Q + 1)). Oracle: plaintext -> per-prime inverse NTT -> own CRT -> centered integer vector, compared exactly with round(v*scale) (integer / single real / coefficient list) or within 1/2 + 256 eps (logN+2) |scaled input| of a naive compensated inverse canonical embedding (vector paths); decode within shadow::ckks_tolerance. non-trivial: negative or non-real input, or scaled magnitude above 2^64, or a lower level, or an integer above some prime.",
        assumptions: vec!["inputs whose scaled magnitude is within 3 bits of the modulus size may be accepted or refused (the library's bit-count rule); they are not judged", "the decoder's word-wise conversion of negative multi-word coefficients is part of the tolerance (same algorithm as upstream SEAL)"],
        subs: vec![Sub::prop("encode_paths", 40_000, 800_000, 0.3, enc_case, oracle)],
    }
}
