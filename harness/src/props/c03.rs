//! C03 — CKKS evaluation is correct within worst-case error; scale bookkeeping is exact; ill-typed operands refused.
use crate::gen::params::*;
use crate::runner::*;
use crate::shadow::*;
use heathcliff::*;
use num_complex::Complex64;
use proptest::prelude::*;
use serde::{Deserialize, Serialize};

#[derive(Clone, Copy, Debug, PartialEq, Eq, Serialize, Deserialize)]
pub enum CK { Negate, Add, Sub, Mul, Square, AddPlain, SubPlain, MulPlain, Relin, Rescale, ModSwitch, BadLevelAdd, BadScaleAdd, BadScaleMul, BadLevelMul }

#[derive(Clone, Debug, Serialize, Deserialize)]
pub struct COp { pub kind: CK, pub a: u16, pub b: u16, pub flag: bool }

#[derive(Clone, Debug, Serialize, Deserialize)]
pub struct CkksCase {
    pub ps: ParamSet,
    /// initial scale selector and value magnitude exponent
    pub scale_sel: u16,
    pub vexp: i8,
    /// vectors: (re mantissa, im mantissa) per slot
    pub vecs: Vec<Vec<(i32, i32)>>,
    pub inits: Vec<(bool, u16)>,
    pub ops: Vec<COp>,
}

fn ckks_cfg(tier: Tier) -> ParamCfg {
    ParamCfg { schemes: vec![Scheme::CKKS], logn_lo: 1, logn_hi: tier.pick(5, 8), logn_small: 3, k_lo: 2, k_hi: 6, bits_lo: 20, bits_hi: 60,
        t_kind: TKind::Any, t_bits_lo: 2, t_bits_hi: 2, need_keyswitching: true, allow_special_flag: false, always_expand: true }
}

fn ckks_case(tier: Tier) -> BoxedStrategy<CkksCase> {
    let op = (prop_oneof![
        2 => Just(CK::Negate), 3 => Just(CK::Add), 2 => Just(CK::Sub), 5 => Just(CK::Mul), 2 => Just(CK::Square), 2 => Just(CK::AddPlain), 1 => Just(CK::SubPlain),
        3 => Just(CK::MulPlain), 3 => Just(CK::Relin), 5 => Just(CK::Rescale), 2 => Just(CK::ModSwitch),
        1 => Just(CK::BadLevelAdd), 1 => Just(CK::BadScaleAdd), 1 => Just(CK::BadScaleMul), 1 => Just(CK::BadLevelMul)
    ], any::<u16>(), any::<u16>(), any::<bool>()).prop_map(|(kind, a, b, flag)| COp { kind, a, b, flag });
    let max_ops = tier.pick(10, 24);
    ckks_cfg(tier).strategy().prop_flat_map(move |ps| {
        let slots = ((1usize << ps.logn) / 2).max(1);
        (Just(ps), any::<u16>(), -12i8..6, proptest::collection::vec(proptest::collection::vec((any::<i32>(), any::<i32>()), slots), 2..=3),
         proptest::collection::vec((any::<bool>(), any::<u16>()), 2..=4), proptest::collection::vec(op.clone(), 0..=max_ops))
    }).prop_map(|(ps, scale_sel, vexp, vecs, inits, ops)| CkksCase { ps, scale_sel, vexp, vecs, inits, ops }).boxed()
}

struct CElem { ct: Ciphertext, vals: Vec<Complex64>, level: usize, size: usize, scale: f64, le: f64, max_abs: f64, rescaled: bool, depth: u32 }

fn max_abs(v: &[Complex64]) -> f64 { v.iter().map(|z| z.norm()).fold(0.0, f64::max) }
fn l2(x: f64) -> f64 { if x <= 0.0 { f64::NEG_INFINITY } else { x.log2() } }

fn oracle(c: &CkksCase) -> Verdict {
    let w = match World::new(&c.ps) { Ok(w) => w, Err(e) => return fail_key("harness/params", e) };
    let nm = NoiseModel::new(&w);
    let n = w.n; let nf = n as f64; let slots = (n / 2).max(1);
    let enc = CKKSEncoder::new(w.context.clone());
    let ev = &w.evaluator;
    let rk = match catch(|| w.keygen.create_relin_keys(false)) { Ok(k) => k, Err(p) => return fail(format!("create_relin_keys panicked: {p}")) };
    let nlev = w.levels.len();
    let lq = |l: usize| log2_big(&w.levels[l].q);
    let qbits = |l: usize| w.levels[l].qbits as f64;
    // values: |v| < 2^vexp
    let vecs: Vec<Vec<Complex64>> = c.vecs.iter().map(|v| v.iter().map(|(a, b)| Complex64::new(*a as f64 * ((c.vexp as f64) - 31.0).exp2(), *b as f64 * ((c.vexp as f64) - 31.0).exp2())).collect()).collect();
    let vbits = (c.vexp as f64 + 1.0).max(0.0);
    // initial scale: 2^10 .. 2^(min(60, logQ_first - 8 - vbits))
    let hi = (lq(0) - 8.0 - vbits).min(60.0).floor();
    if hi < 10.0 { return Verdict::Pass(Info::new(false).label("chain too small for any scale")); }
    let s0 = (10.0 + (c.scale_sel as f64 / 65536.0) * (hi - 10.0 + 1.0)).floor().min(hi).exp2();
    let fp = |m: f64| f64::EPSILON * 64.0 * (c.ps.logn as f64 + 1.0) * m; // encoder FFT error in coefficient units
    let plain_err = |m: f64| 1.0 + fp(m);
    let mut pool: Vec<CElem> = vec![];
    for (pk, vi) in &c.inits {
        let v = &vecs[pick_idx(*vi, vecs.len())];
        let pt = match catch(|| enc.encode_c64_array_new(v, None, s0)) { Ok(p) => p, Err(p) => return fail(format!("CKKS encode refused an admissible input (scale 2^{}): {p}", s0.log2())) };
        let ct = match catch(|| if *pk { w.encryptor.encrypt_new(&pt) } else { let x = w.encryptor.encrypt_symmetric_new(&pt); if x.contains_seed() { x.expand_seed(&w.context) } else { x } }) { Ok(c) => c, Err(p) => return fail(format!("CKKS encryption panicked: {p}")) };
        let ma = max_abs(v);
        let e = nm.fresh(*pk, *pk).exp2() + plain_err(s0 * ma);
        pool.push(CElem { ct, vals: { let mut x = v.clone(); x.resize(slots, Complex64::new(0.0, 0.0)); x }, level: 0, size: 2, scale: s0, le: l2(e), max_abs: ma, rescaled: false, depth: 0 });
    }
    let mut asserted = 0usize; let mut refusals = 0usize; let mut steps = 0u64;
    let (mut has_mul, mut has_rescale, mut mixed) = (false, false, false);
    let has_neg = vecs.iter().any(|v| v.iter().any(|z| z.re < 0.0 || z.im != 0.0));
    {
        let bits: Vec<u32> = c.ps.moduli.iter().map(|m| 64 - m.leading_zeros()).collect();
        if bits.iter().max() != bits.iter().min() { mixed = true; }
    }
    // verify an element against its shadow
    let verify = |e: &CElem, what: &str| -> Result<bool, String> {
        let m = e.scale * e.max_abs;
        let err = e.le.exp2();
        // the scaled message plus error must stay inside Q/2 (2^6 margin), and the encoder must accept the scale
        if !(l2(m + err) + SAFETY_BITS < lq(e.level) - 1.0) { return Ok(false); }
        // documented precondition of decode: floor(log2 scale) below the bit count of the level's modulus (a rescale of a scale
        // within a fraction of a bit of Q can land exactly on it; decode then refuses by contract, whatever the values are)
        if !(e.scale > 0.0) || (e.scale.log2() as usize) >= w.levels[e.level].qbits { return Ok(false); }
        let dec = catch(|| w.decryptor.decrypt_new(&e.ct)).map_err(|p| format!("{what}: decrypt panicked: {p}"))?;
        if dec.scale() != e.scale { return Err(format!("{what}: decrypted plaintext scale {} differs from ciphertext scale {}", dec.scale(), e.scale)); }
        let out = catch(|| enc.decode_new(&dec)).map_err(|p| format!("{what}: decode panicked: {p}"))?;
        let tol = ckks_tolerance(n, c.ps.logn, e.scale, e.max_abs, err, (w.levels[e.level].qbits + 63) / 64) + 64.0 * f64::EPSILON * (e.max_abs + 1.0) * (e.depth as f64 + 1.0);
        for i in 0..slots {
            let d = (out[i] - e.vals[i]).norm();
            if !(d <= tol) { return Err(format!("{what}: slot {i} decodes to {} but the program evaluates to {} (|diff| {:.3e} > worst-case bound {:.3e}; scale 2^{:.2}, level {}, size {})", out[i], e.vals[i], d, tol, e.scale.log2(), e.level, e.size)); }
        }
        Ok(true)
    };
    for (i, e) in pool.iter().enumerate() { match verify(e, &format!("fresh element {i}")) { Ok(a) => if a { asserted += 1 }, Err(m) => return fail_key("C03/fresh", m) } }

    for (si, op) in c.ops.iter().enumerate() {
        let pick = |cands: Vec<usize>, sel: u16| -> Option<usize> { if cands.is_empty() { None } else { Some(cands[pick_idx(sel, cands.len())]) } };
        let all: Vec<usize> = (0..pool.len()).collect();
        let close = |x: f64, y: f64| (x - y).abs() < f64::EPSILON * x.max(y).max(1.0);
        let fits = |scale: f64, level: usize| scale > 0.0 && (scale.log2() as isize) < w.levels[level].qbits as isize;
        // a scale that certainly does not fit the level: at least half a bit above 2^bits(Q), or an exact power of two >= 2^bits(Q)
        // (Q < 2^bits(Q); powers of two have an exact logarithm, so the boundary value itself is unambiguous)
        let too_big = |scale: f64, level: usize| { let l = scale.log2(); l >= qbits(level) + 0.5 || (scale.to_bits() & ((1u64 << 52) - 1) == 0 && scale.is_normal() && l >= qbits(level)) };
        let what = format!("step {si} {:?}", op.kind);
        let key = format!("C03/{:?}", op.kind);
        let new: Option<CElem> = match op.kind {
            CK::Negate => { let a = match pick(all.clone(), op.a) { Some(a) => a, None => continue }; let e = &pool[a];
                let ct = match catch(|| ev.negate_new(&e.ct)) { Ok(c) => c, Err(p) => return fail_key(key, format!("{what} panicked: {p}")) };
                Some(CElem { ct, vals: e.vals.iter().map(|z| -z).collect(), level: e.level, size: e.size, scale: e.scale, le: e.le, max_abs: e.max_abs, rescaled: e.rescaled, depth: e.depth }) }
            CK::Add | CK::Sub => {
                let a = match pick(all.clone(), op.a) { Some(a) => a, None => continue };
                let b = match pick((0..pool.len()).filter(|&j| pool[j].level == pool[a].level && close(pool[j].scale, pool[a].scale)).collect(), op.b) { Some(b) => b, None => continue };
                let (x, y) = (&pool[a], &pool[b]);
                let ct = match catch(|| if op.kind == CK::Add { ev.add_new(&x.ct, &y.ct) } else { ev.sub_new(&x.ct, &y.ct) }) { Ok(c) => c, Err(p) => return fail_key(key, format!("{what} panicked on operands of equal level and scale: {p}")) };
                let vals: Vec<Complex64> = (0..slots).map(|i| if op.kind == CK::Add { x.vals[i] + y.vals[i] } else { x.vals[i] - y.vals[i] }).collect();
                // scales may differ by one ulp-ish relative amount: account for the mismatch as message error
                let mism = (x.scale - y.scale).abs() / x.scale * y.max_abs * x.scale;
                Some(CElem { ct, max_abs: max_abs(&vals).max(x.max_abs + y.max_abs), vals, level: x.level, size: x.size.max(y.size), scale: x.scale, le: l2(x.le.exp2() + y.le.exp2() + mism), rescaled: x.rescaled || y.rescaled, depth: x.depth.max(y.depth) + 1 })
            }
            CK::Mul | CK::Square => {
                let a = match pick((0..pool.len()).filter(|&j| pool[j].size <= 8).collect(), op.a) { Some(a) => a, None => continue };
                let b = if op.kind == CK::Square { a } else { match pick((0..pool.len()).filter(|&j| pool[j].level == pool[a].level && pool[j].size + pool[a].size - 1 <= 16 && fits(pool[j].scale * pool[a].scale, pool[a].level)).collect(), op.b) { Some(b) => b, None => continue } };
                if !fits(pool[a].scale * pool[b].scale, pool[a].level) { continue; }
                let (x, y) = (&pool[a], &pool[b]);
                let ct = match catch(|| if op.kind == CK::Square { ev.square_new(&x.ct) } else { ev.multiply_new(&x.ct, &y.ct) }) { Ok(c) => c, Err(p) => return fail_key(key, format!("{what} (scales 2^{:.1} x 2^{:.1}, level {} of {} bits) panicked on well-typed operands: {p}", x.scale.log2(), y.scale.log2(), x.level, w.levels[x.level].qbits)) };
                has_mul = true;
                let vals: Vec<Complex64> = (0..slots).map(|i| x.vals[i] * y.vals[i]).collect();
                let (m1, m2, e1, e2) = (x.scale * x.max_abs, y.scale * y.max_abs, x.le.exp2(), y.le.exp2());
                let e = nf * (m1 * e2 + m2 * e1 + e1 * e2);
                Some(CElem { ct, vals, level: x.level, size: x.size + y.size - 1, scale: x.scale * y.scale, le: l2(e), max_abs: x.max_abs * y.max_abs, rescaled: x.rescaled || y.rescaled, depth: x.depth + y.depth + 1 })
            }
            CK::AddPlain | CK::SubPlain | CK::MulPlain => {
                let a = match pick(all.clone(), op.a) { Some(a) => a, None => continue };
                let x = &pool[a];
                let v = &vecs[pick_idx(op.b, vecs.len())];
                let mv = max_abs(v);
                // plaintext encoded at the ciphertext's level; for add/sub with the ciphertext's scale
                let ps = if op.kind == CK::MulPlain { s0 } else { x.scale };
                if op.kind == CK::MulPlain && !fits(x.scale * ps, x.level) { continue; }
                if !(l2(ps * mv + 2.0) + 2.0 < qbits(x.level)) || !(ps.log2() + 1.0 < qbits(x.level)) { continue; } // encoder's own admissibility
                let pt = match catch(|| enc.encode_c64_array_new(v, Some(w.levels[x.level].parms_id), ps)) { Ok(p) => p, Err(p) => return fail_key(key, format!("{what}: encode at level {} with scale 2^{:.1} refused: {p}", x.level, ps.log2())) };
                let pv: Vec<Complex64> = { let mut t = v.clone(); t.resize(slots, Complex64::new(0.0, 0.0)); t };
                let ct = match catch(|| match op.kind { CK::AddPlain => ev.add_plain_new(&x.ct, &pt), CK::SubPlain => ev.sub_plain_new(&x.ct, &pt), _ => ev.multiply_plain_new(&x.ct, &pt) }) { Ok(c) => c, Err(p) => return fail_key(key, format!("{what} panicked on well-typed operands: {p}")) };
                let ep = plain_err(ps * mv);
                match op.kind {
                    CK::MulPlain => {
                        has_mul = true;
                        let vals: Vec<Complex64> = (0..slots).map(|i| x.vals[i] * pv[i]).collect();
                        let (m1, m2, e1) = (x.scale * x.max_abs, ps * mv, x.le.exp2());
                        Some(CElem { ct, vals, level: x.level, size: x.size, scale: x.scale * ps, le: l2(nf * (m1 * ep + m2 * e1 + e1 * ep)), max_abs: x.max_abs * mv, rescaled: x.rescaled, depth: x.depth + 1 })
                    }
                    _ => {
                        let vals: Vec<Complex64> = (0..slots).map(|i| if op.kind == CK::AddPlain { x.vals[i] + pv[i] } else { x.vals[i] - pv[i] }).collect();
                        Some(CElem { ct, max_abs: x.max_abs + mv, vals, level: x.level, size: x.size, scale: x.scale, le: l2(x.le.exp2() + ep), rescaled: x.rescaled, depth: x.depth + 1 })
                    }
                }
            }
            CK::Relin => {
                let a = match pick((0..pool.len()).filter(|&j| pool[j].size == 3).collect(), op.a) { Some(a) => a, None => continue };
                let x = &pool[a];
                let ct = match catch(|| ev.relinearize_new(&x.ct, &rk)) { Ok(c) => c, Err(p) => return fail_key(key, format!("{what} panicked: {p}")) };
                let k = w.levels[x.level].moduli.len();
                Some(CElem { ct, vals: x.vals.clone(), level: x.level, size: 2, scale: x.scale, le: nm.keyswitch(x.le, k), max_abs: x.max_abs, rescaled: x.rescaled, depth: x.depth })
            }
            CK::Rescale => {
                let a = match pick((0..pool.len()).filter(|&j| pool[j].level + 1 < nlev).collect(), op.a) { Some(a) => a, None => continue };
                let x = &pool[a];
                let ql = *w.levels[x.level].moduli.last().unwrap();
                let ns = x.scale / ql as f64; // the single IEEE quotient the statement describes
                let ct = match catch(|| ev.rescale_to_next_new(&x.ct)) { Ok(c) => c, Err(p) => return fail_key(key, format!("{what} (scale 2^{:.1}, dropping a {}-bit prime) panicked: {p}", x.scale.log2(), 64 - ql.leading_zeros())) };
                has_rescale = true;
                Some(CElem { ct, vals: x.vals.clone(), level: x.level + 1, size: x.size, scale: ns, le: nm.modswitch(x.le, x.size, ql), max_abs: x.max_abs, rescaled: true, depth: x.depth })
            }
            CK::ModSwitch if op.flag && (0..pool.len()).any(|j| pool[j].level + 1 < nlev && too_big(pool[j].scale, pool[j].level + 1)) => {
                // the scale is kept by a plain modulus switch, so a scale that fits this level but not the next one must be refused
                let a = pick((0..pool.len()).filter(|&j| pool[j].level + 1 < nlev && too_big(pool[j].scale, pool[j].level + 1)).collect(), op.a).unwrap();
                let ok = refuses(|| ev.mod_switch_to_next_new(&pool[a].ct)) && refuses(|| { let mut x = pool[a].ct.clone(); ev.mod_switch_to_next_inplace(&mut x); x });
                if !ok { return fail_key(key, format!("{what}: scale 2^{:.1} does not fit the {}-bit modulus of the next level but the switch was computed", pool[a].scale.log2(), qbits(pool[a].level + 1))); }
                refusals += 1; None
            }
            CK::ModSwitch => {
                let a = match pick((0..pool.len()).filter(|&j| pool[j].level + 1 < nlev && fits(pool[j].scale, pool[j].level + 1)).collect(), op.a) { Some(a) => a, None => continue };
                let x = &pool[a];
                let ct = match catch(|| ev.mod_switch_to_next_new(&x.ct)) { Ok(c) => c, Err(p) => return fail_key(key, format!("{what} panicked: {p}")) };
                Some(CElem { ct, vals: x.vals.clone(), level: x.level + 1, size: x.size, scale: x.scale, le: x.le, max_abs: x.max_abs, rescaled: x.rescaled, depth: x.depth })
            }
            CK::BadLevelAdd | CK::BadLevelMul => {
                let a = match pick(all.clone(), op.a) { Some(a) => a, None => continue };
                let b = match pick((0..pool.len()).filter(|&j| pool[j].level != pool[a].level).collect(), op.b) { Some(b) => b, None => continue };
                let ok = if op.kind == CK::BadLevelAdd { if op.flag { refuses(|| ev.add_new(&pool[a].ct, &pool[b].ct)) } else { refuses(|| ev.sub_new(&pool[a].ct, &pool[b].ct)) } } else { refuses(|| ev.multiply_new(&pool[a].ct, &pool[b].ct)) };
                if !ok { return fail_key(key, format!("{what}: operands at levels {} and {} were computed on instead of refused", pool[a].level, pool[b].level)); }
                refusals += 1; None
            }
            CK::BadScaleAdd => {
                let a = match pick(all.clone(), op.a) { Some(a) => a, None => continue };
                let b = match pick((0..pool.len()).filter(|&j| pool[j].level == pool[a].level && !close(pool[j].scale, pool[a].scale) && (pool[j].scale / pool[a].scale - 1.0).abs() > 1e-9).collect(), op.b) { Some(b) => b, None => continue };
                let ok = if op.flag { refuses(|| ev.add_new(&pool[a].ct, &pool[b].ct)) } else { refuses(|| ev.sub_new(&pool[a].ct, &pool[b].ct)) };
                if !ok { return fail_key(key, format!("{what}: operands with scales 2^{:.3} and 2^{:.3} were added instead of refused", pool[a].scale.log2(), pool[b].scale.log2())); }
                refusals += 1; None
            }
            CK::BadScaleMul if op.flag => {
                // squaring (all sizes, the size-2 fast path included) an operand whose squared scale does not fit
                let a = match pick((0..pool.len()).filter(|&j| 2 * pool[j].size - 1 <= 16 && too_big(pool[j].scale * pool[j].scale, pool[j].level)).collect(), op.a) { Some(a) => a, None => continue };
                let ok = refuses(|| ev.square_new(&pool[a].ct)) && refuses(|| { let mut x = pool[a].ct.clone(); ev.square_inplace(&mut x); x });
                if !ok { return fail_key(key, format!("{what}: squared scale 2^{:.1} does not fit the {}-bit modulus but the square (operand size {}) was computed", 2.0 * pool[a].scale.log2(), qbits(pool[a].level), pool[a].size)); }
                refusals += 1; None
            }
            CK::BadScaleMul if op.b & 1 == 1 && (0..pool.len()).any(|j| too_big(pool[j].scale * s0, pool[j].level) && s0.log2() + 8.0 + vbits < qbits(pool[j].level)) => {
                // ciphertext times plaintext (encoded at the ciphertext's level with the initial scale) whose product scale does not fit
                let a = pick((0..pool.len()).filter(|&j| too_big(pool[j].scale * s0, pool[j].level) && s0.log2() + 8.0 + vbits < qbits(pool[j].level)).collect(), op.a).unwrap();
                let x = &pool[a];
                let v = &vecs[pick_idx(op.b >> 1, vecs.len())];
                let pt = match catch(|| enc.encode_c64_array_new(v, Some(w.levels[x.level].parms_id), s0)) { Ok(p) => p, Err(p) => return fail_key(key, format!("{what}: encode at level {} with scale 2^{:.1} refused: {p}", x.level, s0.log2())) };
                let ok = refuses(|| ev.multiply_plain_new(&x.ct, &pt)) && refuses(|| { let mut y = x.ct.clone(); ev.multiply_plain_inplace(&mut y, &pt); y });
                if !ok { return fail_key(key, format!("{what}: ciphertext scale 2^{:.1} times plaintext scale 2^{:.1} does not fit the {}-bit modulus but multiply_plain was computed", x.scale.log2(), s0.log2(), qbits(x.level))); }
                refusals += 1; None
            }
            CK::BadScaleMul => {
                let a = match pick(all.clone(), op.a) { Some(a) => a, None => continue };
                let b = match pick((0..pool.len()).filter(|&j| pool[j].level == pool[a].level && pool[j].size + pool[a].size - 1 <= 16 && too_big(pool[j].scale * pool[a].scale, pool[a].level)).collect(), op.b) { Some(b) => b, None => continue };
                let ok = refuses(|| ev.multiply_new(&pool[a].ct, &pool[b].ct));
                if !ok { return fail_key(key, format!("{what}: product scale 2^{:.1} does not fit the {}-bit modulus but the product was computed", (pool[a].scale * pool[b].scale).log2(), qbits(pool[a].level))); }
                refusals += 1; None
            }
        };
        let Some(e) = new else { continue };
        steps += 1;
        // metadata
        let ct = &e.ct;
        if !ct.is_valid_for(&w.context) { return fail_key(key, format!("{what}: result not valid for the context")); }
        if ct.size() != e.size || ct.parms_id() != &w.levels[e.level].parms_id || !ct.is_ntt_form() || ct.correction_factor() != 1 { return fail_key(key, format!("{what}: result metadata wrong (size {} level ok {} ntt {})", ct.size(), ct.parms_id() == &w.levels[e.level].parms_id, ct.is_ntt_form())); }
        if ct.scale().to_bits() != e.scale.to_bits() { return fail_key(format!("{key}/scale"), format!("{what}: recorded scale {:e} is not the exact product/quotient {:e} implied by the operation", ct.scale(), e.scale)); }
        match verify(&e, &what) { Ok(a) => if a { asserted += 1 }, Err(m) => return fail_key(key, m) }
        pool.push(e);
    }
    let nontrivial = asserted > 0 && has_mul && (has_rescale || has_neg || mixed);
    Verdict::Pass(Info::new(nontrivial || refusals > 0).evals(steps + refusals as u64 + 1).label_if(has_mul, "multiplies").label_if(has_rescale, "rescaled")
        .label_if(has_neg, "negative/imaginary inputs").label_if(mixed, "mixed prime sizes").label_if(refusals > 0, "refusal checked").label_if(asserted == 0, "nothing asserted"))
}

pub fn def() -> PropertyDef {
    PropertyDef {
        id: "C03",
        level: "exploration",
        rule: "random CKKS programs of 0..10 (thorough 0..24) operations {negate, add, sub, multiply, square, add/sub/multiply_plain, relinearize, rescale_to_next, mod_switch_to_next} plus injected ill-typed steps {add/sub/multiply across levels, add/sub with scales differing by more than the library tolerance, product scale not fitting the modulus} over 2..4 fresh encryptions of complex vectors (signs, imaginary parts, magnitudes 2^-12..2^6) on chains of 2..6 primes of 20..60 bits, initial scales 2^10..2^60. Each well-typed result's recorded scale must be bit-equal to the IEEE product/quotient; its decoding must be within the worst-case error bound when the scaled message plus error bound (2^6 margin) fits Q_level/2; ill-typed steps must panic. non-trivial: asserted with a multiplication and (rescaled or negative/imaginary inputs or mixed prime sizes), or a refusal checked.",
        assumptions: vec!["error model DESIGN.md §4 in the coefficient domain with |sigma(e)| <= N |e|_inf; tolerance shadow::ckks_tolerance", "shadow complex arithmetic in f64 (its own rounding is added to the tolerance per operation)"],
        subs: vec![Sub::prop("ckks_programs", 120_000, 600_000, 0.2, ckks_case, oracle)],
    }
}
