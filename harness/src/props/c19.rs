//! C19 — LWE extraction, field trace and packing place coefficients as documented.
use crate::bigint::BigI;
use crate::gen::params::*;
use crate::gen::*;
use crate::props::c04::rns_ntt_to_centered;
use crate::refmath as rm;
use crate::runner::*;
use crate::shadow::*;
use heathcliff::*;
use proptest::prelude::*;

#[derive(Clone, Copy, Debug, PartialEq, Eq, serde::Serialize, serde::Deserialize)]
pub enum LK { Extract, Trace, Pack }

#[derive(Clone, Debug, serde::Serialize, serde::Deserialize)]
pub struct LweCase { pub ps: ParamSet, pub kind: LK, pub idx: u16, pub alt_form: bool, pub l: u8, pub count: u16, pub terms: Vec<u16>, pub coeffs: Vec<(u8, u64)>, pub seeded_keys: bool,
    /// 1: the input ciphertext is first moved one level down (BGV: correction factor != 1)
    #[serde(default)] pub down: u8 }

fn fixed_ps(scheme: Scheme, logn: u32, entropy: u64) -> ParamSet {
    let moduli = ntt_primes_distinct(logn, &[55, 50, 55, 58], &[0, 1, 2, 3]);
    let t = if scheme == Scheme::CKKS { 0 } else { ntt_prime(logn, 18, 1) };
    ParamSet { scheme, logn, moduli, t, expand_chain: false, special_flag: false, entropy }
}

fn lwe_case(tier: Tier) -> BoxedStrategy<LweCase> {
    let cfg = ParamCfg { schemes: vec![Scheme::BFV, Scheme::BGV, Scheme::CKKS], logn_lo: 2, logn_hi: tier.pick(6, 10), logn_small: 4, k_lo: 3, k_hi: 4, bits_lo: 50, bits_hi: 60, t_kind: TKind::Any, t_bits_lo: 2, t_bits_hi: 20,
        need_keyswitching: true, allow_special_flag: false, always_expand: false };
    (cfg.strategy(), prop_oneof![1 => Just(LK::Extract), 1 => Just(LK::Trace), 2 => Just(LK::Pack)], any::<u16>(), any::<bool>(), any::<u8>(), any::<u16>(), any::<bool>())
        .prop_flat_map(|(ps, kind, idx, alt_form, l, count, seeded_keys)| {
            let n = 1usize << ps.logn;
            (Just(ps), Just(kind), Just(idx), Just(alt_form), Just(l), Just(count), proptest::collection::vec(any::<u16>(), n), proptest::collection::vec((any::<u8>(), any::<u64>()), n), Just(seeded_keys))
        }).prop_map(|(ps, kind, idx, alt_form, l, count, terms, coeffs, seeded_keys)| LweCase { down: (coeffs[0].1 >> 40) as u8 & 1, ps, kind, idx, alt_form, l, count, terms, coeffs, seeded_keys }).boxed()
}

fn exhaustive(tier: Tier) -> Vec<LweCase> {
    let mut out = vec![];
    for scheme in [Scheme::BFV, Scheme::BGV, Scheme::CKKS] {
        for logn in 2..=tier.pick(5u32, 6u32) {
            let n = 1usize << logn;
            let ps = fixed_ps(scheme, logn, 1000 + logn as u64);
            let coeffs: Vec<(u8, u64)> = (0..n).map(|i| (8, (i as u64 + 1).wrapping_mul(0x2545F4914F6CDD1D))).collect();
            let terms: Vec<u16> = (0..n).map(|i| (((n - 1 - i) * 65536 + 100) / n) as u16).collect();
            for i in 0..n { out.push(LweCase { ps: ps.clone(), kind: LK::Extract, idx: ((i * 65536 + 100) / n) as u16, alt_form: i % 2 == 1, l: 0, count: 0, terms: terms.clone(), coeffs: coeffs.clone(), seeded_keys: false, down: (i % 3 == 2) as u8 }); }
            for l in 0..=logn { out.push(LweCase { ps: ps.clone(), kind: LK::Trace, idx: 0, alt_form: false, l: l as u8, count: 0, terms: terms.clone(), coeffs: coeffs.clone(), seeded_keys: l % 2 == 0, down: (l % 2) as u8 }); }
            if logn <= 5 { for k in 1..=n { out.push(LweCase { ps: ps.clone(), kind: LK::Pack, idx: 0, alt_form: false, l: 0, count: (((k - 1) * 65536 + 100) / n) as u16, terms: terms.clone(), coeffs: coeffs.clone(), seeded_keys: false, down: (k % 3 == 0) as u8 }); } }
        }
    }
    out
}

fn oracle(c: &LweCase) -> Verdict {
    let w = match World::new(&c.ps) { Ok(w) => w, Err(e) => return fail_key("harness/params", e) };
    let nm = NoiseModel::new(&w);
    let n = w.n; let t = w.t(); let scheme = w.ps.scheme; let logn = c.ps.logn as usize;
    let ev = &w.evaluator;
    let key = format!("C19/{:?}/{:?}", scheme, c.kind);
    let keys = match catch(|| { let k = w.keygen.create_automorphism_keys(c.seeded_keys); if k.contains_seed() { k.expand_seed(&w.context) } else { k } }) { Ok(k) => k, Err(p) => return fail_key(key, format!("create_automorphism_keys panicked: {p}")) };
    // message: coefficient vector; CKKS through the coefficient-list encoder (exact integers round(v * scale))
    let scale = 2f64.powi(30);
    let vals: Vec<u64> = c.coeffs.iter().take(n).map(|(s, r)| plain_value(*s, *r, t.max(1 << 16))).collect();
    let (plain, ints): (Plaintext, Vec<BigI>) = match scheme {
        Scheme::CKKS => {
            let f: Vec<f64> = vals.iter().enumerate().map(|(i, v)| ((*v % 4096) as f64 - 2048.0) / 16.0 * if i % 3 == 0 { -1.0 } else { 1.0 }).collect();
            let p = match catch(|| CKKSEncoder::new(w.context.clone()).encode_f64_polynomial_new(&f, None, scale)) { Ok(p) => p, Err(p) => return fail(format!("encode_f64_polynomial refused: {p}")) };
            let ints = rns_ntt_to_centered(&w, 0, p.data());
            (p, ints)
        }
        _ => (BatchEncoder::new(w.context.clone()).encode_polynomial_new(&vals), vec![]),
    };
    let mut ct = match catch(|| w.encryptor.encrypt_new(&plain)) { Ok(c) => c, Err(p) => return fail(format!("encrypt panicked: {p}")) };
    // optionally one level down first: lower-level inputs, and in BGV a correction factor different from 1
    let lvl = if c.down == 1 && w.levels.len() > 1 { 1 } else { 0 };
    let mut fresh0 = nm.fresh(true, true);
    if lvl == 1 {
        ct = match catch(|| w.evaluator.mod_switch_to_next_new(&ct)) { Ok(c) => c, Err(p) => return fail(format!("mod_switch_to_next panicked: {p}")) };
        if scheme != Scheme::CKKS { fresh0 = nm.modswitch(fresh0, 2, *w.levels[0].moduli.last().unwrap()); }
    }
    let lq = log2_big(&w.levels[lvl].q);
    let klev = w.levels[lvl].moduli.len();
    let fresh = fresh0;
    let ks = nm.keyswitch(f64::NEG_INFINITY, klev);
    // decrypt a ciphertext (given in any representation) to a coefficient vector: residues mod t (BFV/BGV) or centered integers (CKKS)
    let default_ntt = scheme != Scheme::BFV;
    let decrypt = |x: &Ciphertext| -> Result<(Vec<u64>, Vec<BigI>), String> {
        let y = if x.is_ntt_form() != default_ntt { catch(|| if default_ntt { ev.transform_to_ntt_new(x) } else { ev.transform_from_ntt_new(x) })? } else { x.clone() };
        let d = catch(|| w.decryptor.decrypt_new(&y))?;
        Ok(match scheme { Scheme::CKKS => (vec![], rns_ntt_to_centered(&w, lvl, d.data())), _ => (pad(d.data(), n), vec![]) })
    };
    let mut info = Info::new(false).label(format!("{:?}", scheme)).label(format!("{:?}", c.kind)).label_if(lvl == 1, "input one level down");
    match c.kind {
        LK::Extract => {
            let i = pick_idx(c.idx, n);
            // either input representation
            let input = if c.alt_form { match catch(|| if ct.is_ntt_form() { ev.transform_from_ntt_new(&ct) } else { ev.transform_to_ntt_new(&ct) }) { Ok(x) => x, Err(p) => return fail(format!("representation change panicked: {p}")) } } else { ct.clone() };
            let lwe = match catch(|| ev.extract_lwe(&input, i)) { Ok(l) => l, Err(p) => return fail_key(key, format!("extract_lwe(term {i}) panicked on a valid 2-component ciphertext (ntt form {}): {p}", input.is_ntt_form())) };
            let back = match catch(|| ev.assemble_lwe(&lwe)) { Ok(b) => b, Err(p) => return fail_key(key, format!("assemble_lwe panicked: {p}")) };
            check!(back.size() == 2 && back.parms_id() == ct.parms_id() && back.scale().to_bits() == ct.scale().to_bits() && back.correction_factor() == ct.correction_factor(), "assemble(extract) metadata differs from the source ciphertext");
            let (r, ri) = match decrypt(&back) { Ok(x) => x, Err(p) => return fail_key(key, format!("decrypting assemble(extract(ct,{i})) panicked: {p}")) };
            if nm.assertable(fresh + 1.0, lq) {
                match scheme {
                    Scheme::CKKS => { let d = ri[0].sub(&ints[i]).to_f64().abs(); check!(d <= fresh.exp2() + 2.0, "assemble(extract(ct,{i})): constant coefficient differs from m_{i} by {d:.3e} (noise bound {:.3e})", fresh.exp2()); }
                    _ => check!(r[0] == vals[i] % t, "assemble(extract(ct,{i})): constant coefficient decrypts to {} but m_{i} = {} (input ntt form {})", r[0], vals[i] % t, input.is_ntt_form()),
                }
            }
            info.nontrivial = i >= n / 2 || c.alt_form;
            info = info.label_if(i >= n / 2, "index >= N/2").label_if(c.alt_form, "non-default input representation");
        }
        LK::Trace => {
            let l = (c.l as usize) % (logn + 1);
            let mut x = ct.clone();
            if let Err(p) = catch(|| ev.field_trace_inplace(&mut x, &keys, l)) { return fail_key(key, format!("field_trace_inplace(l={l}) panicked: {p}")); }
            let steps = logn - l;
            // each of the `steps` rounds doubles the accumulated noise and adds one key-switching term
            let lv = ((fresh.exp2() + ks.exp2()) * (2f64.powi(steps as i32 + 1))).log2();
            let (r, ri) = match decrypt(&x) { Ok(v) => v, Err(p) => return fail_key(key, format!("decrypt after trace panicked: {p}")) };
            let stride = n >> l; let factor = (n >> l) as u64;
            if nm.assertable(lv + match scheme { Scheme::CKKS => (scale * 256.0 * factor as f64).log2() - lv, _ => 0.0 }.max(0.0), lq) {
                for j in 0..n {
                    match scheme {
                        Scheme::CKKS => { let want = if j % stride == 0 { ints[j].mul(&BigI::from_i64(factor as i64)) } else { BigI::zero() }; let d = ri[j].sub(&want).to_f64().abs();
                            if !(d <= lv.exp2() + 2.0) { return fail_key(key, format!("field trace l={l}: coefficient {j} differs from {} by {d:.3e} (bound {:.3e})", if j % stride == 0 { format!("{factor}*m_{j}") } else { "0".into() }, lv.exp2())); } }
                        _ => { let want = if j % stride == 0 { rm::mulmod(vals[j] % t, factor % t, t) } else { 0 };
                            if r[j] != want { return fail_key(key, format!("field trace l={l} (N={n}): coefficient {j} decrypts to {} but should be {} ({})", r[j], want, if j % stride == 0 { format!("{factor}*m_{j} mod t") } else { "zeroed".into() })); } }
                    }
                }
            } else { info = info.label("noise-unbounded"); }
            info.nontrivial = l > 0 && l < logn;
            info = info.label(format!("l={}", l.min(9)));
        }
        LK::Pack => {
            let k = 1 + pick_idx(c.count, n);
            let terms: Vec<usize> = (0..k).map(|j| pick_idx(c.terms[j % c.terms.len()], n)).collect();
            let lwes: Vec<_> = match catch(|| terms.iter().map(|&i| ev.extract_lwe(&ct, i)).collect::<Vec<_>>()) { Ok(v) => v, Err(p) => return fail_key(key, format!("extract_lwe panicked: {p}")) };
            let packed = match catch(|| ev.pack_lwe_ciphertexts(&lwes, &keys)) { Ok(p) => p, Err(p) => return fail_key(key, format!("pack_lwe_ciphertexts({k} of N={n}) panicked: {p}")) };
            check!(packed.size() == 2 && packed.is_valid_for(&w.context) && packed.is_ntt_form() == default_ntt, "packed ciphertext malformed");
            let l = (k as f64).log2().ceil() as usize;
            let stride = n >> l;
            let (r, ri) = match decrypt(&packed) { Ok(v) => v, Err(p) => return fail_key(key, format!("decrypt after packing panicked: {p}")) };
            // noise: k inputs, log N merge/trace rounds, everything scaled by at most N overall
            let lv = ((k as f64 * fresh.exp2() + 2.0 * (logn as f64 + 1.0) * ks.exp2()) * (n as f64) * (n as f64)).log2();
            if nm.assertable(lv, lq) {
                for j in 0..n {
                    let src = if j % stride == 0 && j / stride < k { Some(terms[j / stride]) } else { None };
                    match scheme {
                        Scheme::CKKS => { let want = src.map_or(BigI::zero(), |s| ints[s].clone()); let d = ri[j].sub(&want).to_f64().abs();
                            if !(d <= lv.exp2() + 2.0) { return fail_key(key, format!("pack of {k} (N={n}): coefficient {j} differs from {} by {d:.3e} (bound {:.3e})", src.map_or("0".into(), |s| format!("m_{s}")), lv.exp2())); } }
                        _ => { let want = src.map_or(0, |s| vals[s] % t);
                            if r[j] != want { return fail_key(key, format!("pack of {k} (N={n}, stride {stride}): coefficient {j} decrypts to {} but should be {} ({})", r[j], want, src.map_or("zero".into(), |s| format!("value {} = m_{s}", j / stride)))); } }
                    }
                }
            } else { info = info.label("noise-unbounded"); }
            info.nontrivial = !k.is_power_of_two() || k == 1 || k == n;
            info = info.label_if(!k.is_power_of_two(), "count not a power of two").label_if(k == 1, "count 1").label_if(k == n, "count N");
        }
    }
    Verdict::Pass(info)
}

pub fn def() -> PropertyDef {
    PropertyDef {
        id: "C19",
        level: "exploration",
        rule: "exhaustive: N in {4,8,16,32} (thorough 64), three schemes: every coefficient index for extract+assemble (alternating input representation), every trace parameter 0..log N, every pack count 1..N; random: N=4..64 (thorough 1024), random indices, counts, term selections, seeded-then-expanded automorphism keys, plain moduli of every kind. Oracle on decrypted coefficient vectors (BFV/BGV exact modulo t; CKKS exact integers round(v*scale) recovered by own CRT, within the worst-case noise): assemble(extract(ct,i)) has constant coefficient m_i; trace(l) keeps coefficient j times N/2^l iff N/2^l divides j; pack(k) holds value j at index j*N/2^ceil(log2 k) and zero elsewhere. non-trivial: index >= N/2 or non-default representation / 0 < l < log N / count not a power of two or count in {1, N}.",
        assumptions: vec!["noise model DESIGN.md §4 with generous multipliers for the merge and trace rounds"],
        subs: vec![Sub::enumerate("all_indices_counts_depths", exhaustive, oracle), Sub::prop("random_lwe", 150_000, 600_000, 0.4, lwe_case, oracle)],
    }
}
