//! C15 — serialization fails cleanly under I/O faults instead of corrupting or panicking.
use crate::gen::params::*;
use crate::props::c14::{ser_cfg, zoo_spec};
use crate::runner::*;
use crate::zoo::*;
use proptest::prelude::*;
use std::io::{Error, ErrorKind, Write};

#[derive(Clone, Debug, serde::Serialize, serde::Deserialize)]
pub struct FaultCase {
    pub ps: ParamSet, pub obj: ZooSpec,
    /// writers: cyclic per-call acceptance limits (1..8), optional hard failure after k bytes (selector), Interrupted injections (call indices)
    pub writers: Vec<(Vec<u8>, Option<u16>, Vec<u8>, bool)>,
    /// extra sampled truncation offsets for large encodings
    pub offsets: Vec<u16>,
}

/// A writer that obeys the std::io::Write contract but accepts few bytes per call, may fail for good, may report Interrupted.
pub struct FaultyWriter { pub limits: Vec<usize>, pub fail_after: Option<usize>, /** at the failure point behave like a full fixed-size buffer (Ok(0)) instead of returning an error */ pub full_buffer: bool, pub interrupts: Vec<usize>, pub sink: Vec<u8>, pub calls: usize, pub short: usize }
impl Write for FaultyWriter {
    fn write(&mut self, buf: &[u8]) -> std::io::Result<usize> {
        let call = self.calls; self.calls += 1;
        if buf.is_empty() { return Ok(0); }
        if self.interrupts.contains(&call) { return Err(Error::new(ErrorKind::Interrupted, "injected EINTR")); }
        let mut n = self.limits[call % self.limits.len()].min(buf.len());
        if let Some(k) = self.fail_after {
            if self.sink.len() >= k { return if self.full_buffer { Ok(0) } else { Err(Error::new(ErrorKind::Other, "injected write failure")) }; }
            n = n.min(k - self.sink.len());
        }
        if n < buf.len() { self.short += 1; }
        self.sink.extend_from_slice(&buf[..n]);
        Ok(n)
    }
    fn flush(&mut self) -> std::io::Result<()> { Ok(()) }
}

fn fault_case(tier: Tier) -> BoxedStrategy<FaultCase> {
    let writer = (proptest::collection::vec(1u8..=8, 1..6), proptest::option::weighted(0.4, any::<u16>()), proptest::collection::vec(0u8..40, 0..3), any::<bool>());
    (ser_cfg(tier, true).strategy(), zoo_spec(3), proptest::collection::vec(writer, 1..6), proptest::collection::vec(any::<u16>(), 24))
        .prop_map(|(ps, obj, writers, offsets)| FaultCase { ps, obj, writers, offsets }).boxed()
}

fn oracle(c: &FaultCase) -> Verdict {
    let need_r = matches!(c.obj.kind % KINDS, 22 | 23 | 24 | 25 | 27 | 28);
    let e = match zoo_env(&c.ps, need_r) { Ok(e) => e, Err(m) => return fail_key("harness/params", m) };
    let x = match build(&e, &c.obj) { Ok(Some(x)) => x, Ok(None) => return Verdict::Pass(Info::new(false).label("kind not available under these parameters")), Err(m) => return fail(format!("building the object failed: {m}")) };
    let name = x.name();
    let mut reference: Vec<u8> = vec![];
    match catch(|| x.serialize(&e, &mut reference)) { Ok(Ok(_)) => {}, _ => return fail(format!("{name}: reference serialization into a Vec failed")) }
    let len = reference.len();
    let mut evals = 0u64; let mut short_multi = false;
    // ---- write side
    for (limits, fail_sel, ints, full_buffer) in &c.writers {
        let fail_after = fail_sel.map(|s| pick_idx(s, len.max(1)));
        let mut w = FaultyWriter { limits: limits.iter().map(|l| *l as usize).collect(), fail_after, full_buffer: *full_buffer, interrupts: ints.iter().map(|i| *i as usize).collect(), sink: vec![], calls: 0, short: 0 };
        let desc = format!("limits {:?}, {} after {:?} bytes, EINTR at calls {:?}", limits, if *full_buffer { "buffer full (Ok(0))" } else { "failure" }, fail_after, ints);
        match catch(|| x.serialize(&e, &mut w)) {
            Err(p) => return fail_key(format!("C15/write/{name}/panic"), format!("{name}: serialize panicked on a faulty writer ({desc}): {p}")),
            Ok(Err(_)) => {} // a reported error is always acceptable
            Ok(Ok(n)) => {
                if w.sink != reference || n != len {
                    let key = if w.sink.len() < len { format!("C15/write/short-write-ignored") } else { format!("C15/write/{name}/corrupt") };
                    return fail_key(key, format!("{name}: serialize returned Ok({n}) but the sink holds {} of {len} bytes{} ({desc})", w.sink.len(), if w.sink.len() == len { " with different contents" } else { "" }));
                }
            }
        }
        if w.short > 0 { short_multi = true; }
        evals += 1;
    }
    // ---- read side: every strict prefix must be rejected with an error
    let offsets: Vec<usize> = if len <= 4096 { (0..len).collect() } else {
        let mut v: Vec<usize> = c.offsets.iter().map(|s| pick_idx(*s, len)).collect();
        v.extend((0..64).map(|i| i * 8)); v.extend([len - 1, len - 2, len - 8, len - 9, len / 2]); v.sort(); v.dedup(); v.retain(|o| *o < len); v };
    for off in offsets {
        let mut rd: &[u8] = &reference[..off];
        match catch(|| x.deserialize_like(&e.w.context, e.rctx.as_ref(), &mut rd).map(|_| ())) {
            Err(p) => return fail_key(format!("C15/read/panic-on-truncation"), format!("{name}: deserialize panicked on an encoding truncated at byte {off} of {len}: {p}")),
            Ok(Ok(())) => return fail_key(format!("C15/read/{name}/accepted-truncated"), format!("{name}: deserialize returned Ok for an encoding truncated at byte {off} of {len}")),
            Ok(Err(_)) => {}
        }
        evals += 1;
    }
    Verdict::Pass(Info::new(len > 0).evals(evals).label(name).label_if(short_multi, "short write on a multi-byte scalar").label_if(len > 4096, "sampled offsets").label(format!("len<{}", if len < 64 { 64 } else if len < 512 { 512 } else if len < 4096 { 4096 } else { 1 << 20 })))
}

pub fn def() -> PropertyDef {
    PropertyDef {
        id: "C15",
        level: "fault_enumeration",
        rule: "for every object kind of C14 (29 kinds, N=2..8 so encodings are tens to a few thousand bytes, residues of 1..8 bytes): write side - 1..5 faulty writers per object, each defined by a cyclic list of per-call acceptance limits 1..8 bytes, an optional hard failure (an error, or Ok(0) like a full fixed-size buffer) after k bytes and optional Interrupted errors; the call must return Err, or Ok(n) with n = length and the sink byte-identical to the reference encoding; read side - EVERY truncation offset 0..len-1 of the reference encoding (exhaustive for encodings up to 4 KiB, all early field boundaries plus sampled offsets above) must yield Err, never Ok and never a panic. non-trivial: every case with a non-empty encoding (each evaluates all its offsets); distinct = distinct serialized cases.",
        assumptions: vec!["only the fault classes the statement names: short writes, write failures, Interrupted, early end of stream (not arbitrary corruption)", "writers obey the std::io::Write contract (never Ok(0) for a non-empty buffer)"],
        subs: vec![Sub::prop("faulty_streams", 150_000, 1_000_000, 0.5, fault_case, oracle)],
    }
}
