//! C04 — Galois maps, rotations, conjugation and key switching act as documented.
use crate::bigint::{centered, crt_compose, BigI};
use crate::gen::params::*;
use crate::gen::*;
use crate::refmath as rm;
use crate::runner::*;
use crate::shadow::*;
use heathcliff::*;
use num_complex::Complex64;
use proptest::prelude::*;
use serde::{Deserialize, Serialize};

#[derive(Clone, Copy, Debug, PartialEq, Eq, Serialize, Deserialize)]
pub enum GK { ApplyGalois, RotateRows, RotateColumns, RotateVector, Conjugate, KeySwitch, GaloisPlain }

#[derive(Clone, Debug, Serialize, Deserialize)]
pub struct GalCase {
    pub ps: ParamSet, pub kind: GK, pub elt_sel: u16, pub step: i32,
    /// 0 direct key, 1 default power-of-two set, 2 default set created seeded then expanded, 3 direct key created seeded then expanded
    pub keymode: u8,
    pub level_sel: u16, pub coeffs: Vec<(u8, u64)>, pub cvals: Vec<(i32, i32)>, pub flag: bool,
}

fn cfg4(tier: Tier) -> ParamCfg {
    ParamCfg { schemes: vec![Scheme::BFV, Scheme::BGV, Scheme::CKKS], logn_lo: 1, logn_hi: tier.pick(6, 9), logn_small: 4, k_lo: 2, k_hi: 5, bits_lo: 40, bits_hi: 60,
        t_kind: TKind::BatchingOnly, t_bits_lo: 8, t_bits_hi: 30, need_keyswitching: true, allow_special_flag: false, always_expand: true }
}

fn gal_case(tier: Tier) -> BoxedStrategy<GalCase> {
    let kinds = prop_oneof![4 => Just(GK::ApplyGalois), 4 => Just(GK::RotateRows), 1 => Just(GK::RotateColumns), 3 => Just(GK::RotateVector), 1 => Just(GK::Conjugate), 2 => Just(GK::KeySwitch), 2 => Just(GK::GaloisPlain)];
    (cfg4(tier).strategy(), kinds, any::<u16>(), any::<i32>(), 0u8..4, any::<u16>(), any::<bool>())
        .prop_flat_map(|(ps, kind, elt_sel, step, keymode, level_sel, flag)| {
            let n = 1usize << ps.logn;
            (Just(ps), Just(kind), Just(elt_sel), Just(step), Just(keymode), Just(level_sel), proptest::collection::vec((any::<u8>(), any::<u64>()), n), proptest::collection::vec((any::<i32>(), any::<i32>()), (n / 2).max(1)), Just(flag))
        }).prop_map(|(ps, kind, elt_sel, step, keymode, level_sel, coeffs, cvals, flag)| GalCase { ps, kind, elt_sel, step, keymode, level_sel, coeffs, cvals, flag }).boxed()
}

/// exhaustive elements and steps at N in {4,8,16,32} for the three schemes
fn exhaustive(tier: Tier) -> Vec<GalCase> {
    let mut out = vec![];
    for scheme in [Scheme::BFV, Scheme::BGV, Scheme::CKKS] {
        for logn in 2..=tier.pick(5u32, 6u32) {
            let n = 1usize << logn;
            let moduli = ntt_primes_distinct(logn, &[50, 45, 55], &[0, 1, 2]);
            let t = if scheme == Scheme::CKKS { 0 } else { ntt_prime(logn, 17, 0) };
            let ps = ParamSet { scheme, logn, moduli, t, expand_chain: true, special_flag: false, entropy: logn as u64 * 31 + 5 };
            let coeffs: Vec<(u8, u64)> = (0..n).map(|i| (7 + (i % 3) as u8, (i as u64 + 2).wrapping_mul(0x9e3779b97f4a7c15))).collect();
            let cvals: Vec<(i32, i32)> = (0..n / 2).map(|i| ((i as i32 + 1).wrapping_mul(100_000_007), (i as i32 - 3).wrapping_mul(77_777_777))).collect();
            for g in (1..2 * n).step_by(2) { for lvl in [0u16, 65535] {
                out.push(GalCase { ps: ps.clone(), kind: GK::ApplyGalois, elt_sel: ((g / 2) * 65536 / n + 1) as u16, step: 0, keymode: 0, level_sel: lvl, coeffs: coeffs.clone(), cvals: cvals.clone(), flag: g % 4 == 1 });
            } }
            let half = (n / 2) as i32;
            for s in -(half - 1)..=(half - 1) { if s == 0 { continue; } for keymode in [0u8, 1] {
                out.push(GalCase { ps: ps.clone(), kind: if scheme == Scheme::CKKS { GK::RotateVector } else { GK::RotateRows }, elt_sel: 0, step: s, keymode, level_sel: if s % 2 == 0 { 0 } else { 65535 }, coeffs: coeffs.clone(), cvals: cvals.clone(), flag: false });
            } }
            out.push(GalCase { ps: ps.clone(), kind: if scheme == Scheme::CKKS { GK::Conjugate } else { GK::RotateColumns }, elt_sel: 0, step: 0, keymode: 1, level_sel: 0, coeffs: coeffs.clone(), cvals: cvals.clone(), flag: false });
        }
    }
    out
}

/// integer coefficient vector (centered) of an NTT-form RNS polynomial at a level
pub fn rns_ntt_to_centered(w: &World, level: usize, data: &[u64]) -> Vec<BigI> {
    let n = w.n; let moduli = &w.levels[level].moduli; let k = moduli.len();
    let cd = w.context.get_context_data(&w.levels[level].parms_id).unwrap();
    let mut d = data[..n * k].to_vec();
    for (j, tb) in cd.small_ntt_tables().iter().enumerate() { tb.inverse_ntt_negacyclic_harvey(&mut d[j * n..(j + 1) * n]); }
    (0..n).map(|i| centered(&crt_compose(&(0..k).map(|j| d[j * n + i]).collect::<Vec<_>>(), moduli), &w.levels[level].q)).collect()
}

fn oracle(c: &GalCase) -> Verdict {
    let w = match World::new(&c.ps) { Ok(w) => w, Err(e) => return fail_key("harness/params", e) };
    let nm = NoiseModel::new(&w);
    let n = w.n; let half = n / 2; let t = w.t(); let scheme = w.ps.scheme;
    let nlev = w.levels.len();
    let ev = &w.evaluator;
    let kind = match (c.kind, scheme) { (GK::RotateRows, Scheme::CKKS) => GK::RotateVector, (GK::RotateVector, Scheme::BFV | Scheme::BGV) => GK::RotateRows,
        (GK::RotateColumns, Scheme::CKKS) => GK::Conjugate, (GK::Conjugate, Scheme::BFV | Scheme::BGV) => GK::RotateColumns, (k, _) => k };
    if half <= 1 && matches!(kind, GK::RotateRows | GK::RotateVector) { return Verdict::Pass(Info::new(false).label("no rotation step exists for N=2")); }
    if (kind == GK::RotateRows || kind == GK::RotateColumns) && !w.batching { return Verdict::Pass(Info::new(false).label("no batching prime fits")); }
    let level = pick_idx(c.level_sel, nlev);
    let lq = log2_big(&w.levels[level].q);
    let key = format!("C04/{:?}/{:?}", scheme, kind);
    // ---- plaintext and fresh ciphertext
    let be = if scheme != Scheme::CKKS { Some(BatchEncoder::new(w.context.clone())) } else { None };
    let ce = if scheme == Scheme::CKKS { Some(CKKSEncoder::new(w.context.clone())) } else { None };
    let slots_u: Vec<u64> = c.coeffs.iter().take(n).map(|(s, r)| plain_value(*s, *r, t.max(2))).collect();
    let cv: Vec<Complex64> = c.cvals.iter().take(half.max(1)).map(|(a, b)| Complex64::new(*a as f64 / 2f64.powi(28), *b as f64 / 2f64.powi(28))).collect();
    let maxv = cv.iter().map(|z| z.norm()).fold(0.0, f64::max);
    let scale = 2f64.powi(30);
    let use_slots = scheme != Scheme::CKKS && w.batching && !(kind == GK::ApplyGalois || kind == GK::GaloisPlain || kind == GK::KeySwitch);
    let plain = match scheme {
        Scheme::CKKS => match catch(|| ce.as_ref().unwrap().encode_c64_array_new(&cv, None, scale)) { Ok(p) => p, Err(p) => return fail(format!("encode refused: {p}")) },
        _ => if use_slots { be.as_ref().unwrap().encode_new(&slots_u) } else { be.as_ref().unwrap().encode_polynomial_new(&slots_u) },
    };
    let msg_poly: Vec<u64> = if scheme != Scheme::CKKS { pad(plain.data(), n) } else { vec![] };
    let ck_coeffs: Vec<BigI> = if scheme == Scheme::CKKS { rns_ntt_to_centered(&w, 0, plain.data()) } else { vec![] };

    // ---- plaintext automorphism (full-length plaintexts, both representations)
    if kind == GK::GaloisPlain {
        let g = 2 * pick_idx(c.elt_sel, n) + 1;
        match scheme {
            Scheme::CKKS => {
                let out = match catch(|| ev.apply_galois_plain_new(&plain, g)) { Ok(p) => p, Err(p) => return fail_key(key, format!("apply_galois_plain panicked on a valid NTT plaintext: {p}")) };
                let got = rns_ntt_to_centered(&w, 0, out.data());
                for i in 0..n { let e = (i * g) % (2 * n); let want = if e < n { ck_coeffs[i].clone() } else { ck_coeffs[i].negate() }; check!(got[e % n] == want, "apply_galois_plain (NTT form, g={g}): coefficient {i} did not move to X^{}", e); }
            }
            _ => {
                let full = be.as_ref().unwrap().encode_polynomial_new(&{ let mut v = slots_u.clone(); if *v.last().unwrap() == 0 { *v.last_mut().unwrap() = 1; } v });
                let fp = pad(full.data(), n);
                let want = rm::galois_coeff(&fp, g as u64, t);
                let out = match catch(|| ev.apply_galois_plain_new(&full, g)) { Ok(p) => p, Err(p) => return fail_key(key, format!("apply_galois_plain panicked on a full-length plaintext: {p}")) };
                check!(pad(out.data(), n) == want, "apply_galois_plain (coefficient form, g={g}) is not m(X^g)");
                // NTT-form plaintext at some level: transform, apply, compare with the transform of the mapped plaintext
                let pid = w.levels[level].parms_id;
                let ntt_in = ev.transform_plain_to_ntt_new(&full, &pid);
                let ntt_out = match catch(|| ev.apply_galois_plain_new(&ntt_in, g)) { Ok(p) => p, Err(p) => return fail_key(key, format!("apply_galois_plain panicked on an NTT plaintext: {p}")) };
                let want_ntt = ev.transform_plain_to_ntt_new(&be.as_ref().unwrap().encode_polynomial_new(&want), &pid);
                check!(ntt_out.data() == want_ntt.data(), "apply_galois_plain (NTT form, level {level}, g={g}) differs from the transform of m(X^g)");
            }
        }
        return Verdict::Pass(Info::new(g != 3 && g != 2 * n - 1).label(format!("{:?}", scheme)).label("plaintext automorphism"));
    }

    // ---- ciphertext at the requested level
    let mut lv;
    let mut ct;
    if kind == GK::KeySwitch {
        // ciphertext under another secret key; switching key generated by *this* key generator for that key
        let other = KeyGenerator::new(w.context.clone());
        let enc_other = Encryptor::new(w.context.clone()).set_secret_key(other.secret_key().clone());
        ct = match catch(|| { let x = enc_other.encrypt_symmetric_new(&plain); if x.contains_seed() { x.expand_seed(&w.context) } else { x } }) { Ok(c) => c, Err(p) => return fail(format!("encrypt under the other key panicked: {p}")) };
        lv = nm.fresh(false, false);
        let ksk = match catch(|| { let k = w.keygen.create_keyswitching_key(other.secret_key(), c.flag); if k.contains_seed() { k.expand_seed(&w.context) } else { k } }) { Ok(k) => k, Err(p) => return fail_key(key, format!("create_keyswitching_key panicked: {p}")) };
        for l in 0..level { let ql = *w.levels[l].moduli.last().unwrap(); ct = match catch(|| ev.mod_switch_to_next_new(&ct)) { Ok(c) => c, Err(p) => return fail(format!("mod switch panicked: {p}")) }; if scheme != Scheme::CKKS { lv = nm.modswitch(lv, 2, ql); } }
        let out = match catch(|| ev.apply_keyswitching_new(&ct, &ksk)) { Ok(c) => c, Err(p) => return fail_key(key, format!("apply_keyswitching panicked on a valid 2-component ciphertext at level {level}: {p}")) };
        lv = nm.keyswitch(lv, w.levels[level].moduli.len());
        check!(out.is_valid_for(&w.context) && out.size() == 2 && out.parms_id() == &w.levels[level].parms_id, "key-switched ciphertext metadata wrong");
        return judge_result(&w, &nm, c, &out, level, lv, lq, &msg_poly, &ck_coeffs, 1, |x| x.to_vec(), |i| (i, false), scale, maxv, &key, "key switching to the generator's key", true);
    }
    ct = match catch(|| w.encryptor.encrypt_new(&plain)) { Ok(c) => c, Err(p) => return fail(format!("encrypt panicked: {p}")) };
    lv = nm.fresh(true, true);
    for l in 0..level { let ql = *w.levels[l].moduli.last().unwrap(); ct = match catch(|| ev.mod_switch_to_next_new(&ct)) { Ok(c) => c, Err(p) => return fail(format!("mod switch panicked: {p}")) }; if scheme != Scheme::CKKS { lv = nm.modswitch(lv, 2, ql); } }
    let klev = w.levels[level].moduli.len();

    // ---- the operation
    let step: isize = if half > 1 { let s = (c.step as isize).rem_euclid(2 * half as isize - 1) - (half as isize - 1); if s == 0 { 1 } else { s } } else { 0 };
    let gtool = heathcliff::util::GaloisTool::new(c.ps.logn as usize);
    let g: usize = match kind { GK::ApplyGalois => 2 * pick_idx(c.elt_sel, n) + 1, GK::RotateRows | GK::RotateVector => gtool.get_elt_from_step(step), _ => 2 * n - 1 };
    let mk_keys = |direct: bool, seeded: bool| -> Result<GaloisKeys, String> {
        catch(|| {
            // explicit lists: the wanted entry alone, or after other entries that include a repeated element (a list may name an
            // element twice - two steps can map to one element - and every listed element still has to get its key)
            let listy = c.elt_sel & 1 == 1;
            let other = (2 * (1 + (c.elt_sel as usize >> 1) % (n - 1).max(1)) + 1).min(2 * n - 1);
            let k = if direct { match kind {
                GK::RotateRows | GK::RotateVector if c.flag => if listy && half > 1 { w.keygen.create_galois_keys_from_steps(&[1, 1 - half as isize, step], seeded) } else { w.keygen.create_galois_keys_from_steps(&[step], seeded) },
                _ => if listy { w.keygen.create_galois_keys_from_elts(&[other, other, g, 2 * n - 1], seeded) } else { w.keygen.create_galois_keys_from_elts(&[g], seeded) } } } else { w.keygen.create_galois_keys(seeded) };
            if k.contains_seed() { k.expand_seed(&w.context) } else { k }
        })
    };
    let direct = c.keymode == 0 || c.keymode == 3 || kind == GK::ApplyGalois;
    let keys = match mk_keys(direct, c.keymode >= 2) { Ok(k) => k, Err(p) => return fail_key(key, format!("Galois key generation panicked (direct={direct}): {p}")) };
    let napps = if direct || !matches!(kind, GK::RotateRows | GK::RotateVector) { 1 } else { heathcliff::util::naf(step as i32).into_iter().filter(|d| d.unsigned_abs() as usize != half).count().max(1) };
    // value-returning form, or (one case in three) the destination form into a new object / into a previously used first-level buffer
    let form = (c.level_sel >> 3) % 3;
    let out = match catch(|| if form == 0 { match kind {
        GK::ApplyGalois => ev.apply_galois_new(&ct, g, &keys),
        GK::RotateRows => ev.rotate_rows_new(&ct, step, &keys),
        GK::RotateColumns => ev.rotate_columns_new(&ct, &keys),
        GK::RotateVector => ev.rotate_vector_new(&ct, step, &keys),
        GK::Conjugate => ev.complex_conjugate_new(&ct, &keys),
        _ => unreachable!(),
    } } else {
        let mut d = if form == 1 { Ciphertext::new() } else { w.encryptor.encrypt_zero_new() };
        match kind {
            GK::ApplyGalois => ev.apply_galois(&ct, g, &keys, &mut d),
            GK::RotateRows => ev.rotate_rows(&ct, step, &keys, &mut d),
            GK::RotateColumns => ev.rotate_columns(&ct, &keys, &mut d),
            GK::RotateVector => ev.rotate_vector(&ct, step, &keys, &mut d),
            GK::Conjugate => ev.complex_conjugate(&ct, &keys, &mut d),
            _ => unreachable!(),
        }
        d
    }) { Ok(c) => c, Err(p) => return fail_key(key, format!("{:?} (g={g}, step={step}, level {level}, direct key {direct}) panicked on valid operands: {p}", kind)) };
    for _ in 0..napps { lv = nm.keyswitch(lv, klev); }
    check!(out.is_valid_for(&w.context) && out.size() == 2 && out.parms_id() == &w.levels[level].parms_id && out.is_ntt_form() == ct.is_ntt_form(), "{:?}: result metadata wrong", kind);
    check!(out.scale().to_bits() == ct.scale().to_bits() && out.correction_factor() == ct.correction_factor(), "{:?}: scale / correction factor changed", kind);
    // expected action
    let r = if half > 0 { step.rem_euclid(half.max(1) as isize) as usize } else { 0 };
    let what = match kind { GK::ApplyGalois => format!("apply_galois with element {g}"), GK::RotateRows => format!("rotate_rows by {step}"), GK::RotateColumns => "rotate_columns".into(), GK::RotateVector => format!("rotate_vector by {step}"), _ => "complex_conjugate".into() };
    let nontrivial = (g != 3 && g != 2 * n - 1) || step < 0 || napps >= 2 || level > 0;
    let slot_map = move |i: usize| -> (usize, bool) { match kind {
        GK::RotateRows => { let (row, col) = (i / half, i % half); (row * half + (col + r) % half, false) }
        GK::RotateColumns => ((i + half) % n, false),
        GK::RotateVector => ((i + r) % half.max(1), false),
        GK::Conjugate => (i, true),
        _ => (i, false) } };
    let poly_map = move |p: &[u64]| -> Vec<u64> { rm::galois_coeff(p, g as u64, t.max(2)) };
    let mut v = judge_result(&w, &nm, c, &out, level, lv, lq, &msg_poly, &ck_coeffs, g, poly_map, slot_map, scale, maxv, &key, &what, use_slots || scheme == Scheme::CKKS && kind != GK::ApplyGalois);
    if let Verdict::Pass(ref mut info) = v { info.nontrivial = info.nontrivial && nontrivial; if napps >= 2 { info.labels.push("NAF-composed".into()); } if step < 0 { info.labels.push("negative step".into()); } if level > 0 { info.labels.push("lower level".into()); } if c.keymode >= 2 { info.labels.push("seeded keys expanded".into()); } }
    v
}

/// compare the decrypted result with the expected image of the plaintext
#[allow(clippy::too_many_arguments)]
fn judge_result(w: &World, nm: &NoiseModel, c: &GalCase, out: &Ciphertext, level: usize, lv: f64, lq: f64, msg_poly: &[u64], ck: &[BigI], g: usize,
    poly_map: impl Fn(&[u64]) -> Vec<u64>, slot_map: impl Fn(usize) -> (usize, bool), scale: f64, maxv: f64, key: &str, what: &str, by_slots: bool) -> Verdict {
    let n = w.n; let scheme = w.ps.scheme; let half = (n / 2).max(1);
    let info = Info::new(true).label(format!("{:?}", scheme)).label(format!("{:?}", c.kind));
    let dec = match catch(|| w.decryptor.decrypt_new(out)) { Ok(d) => d, Err(p) => return fail_key(key, format!("{what}: decrypt panicked: {p}")) };
    match scheme {
        Scheme::BFV | Scheme::BGV => {
            if !nm.assertable(lv, lq) { return Verdict::Pass(info.label("noise-unbounded")); }
            let got = pad(dec.data(), n);
            if by_slots {
                let be = BatchEncoder::new(w.context.clone());
                let before = be.decode_new(&be.encode_polynomial_new(msg_poly));
                let after = be.decode_new(&dec);
                for i in 0..n { let (src, _) = slot_map(i); if after[i] != before[src] { return fail_key(key, format!("{what} (level {level}): slot {i} holds {} but the documented action puts input slot {src} = {} there", after[i], before[src])); } }
            } else {
                let want = poly_map(msg_poly);
                if got != want { let i = (0..n).find(|&i| got[i] != want[i]).unwrap(); return fail_key(key, format!("{what} (level {level}): decrypted coefficient {i} = {} but m(X^{g}) has {}", got[i], want[i])); }
            }
        }
        Scheme::CKKS => {
            let e = lv.exp2() + 2.0;
            if !((scale * maxv + e).log2() + SAFETY_BITS < lq - 1.0) { return Verdict::Pass(info.label("noise-unbounded")); }
            if by_slots {
                let ce = CKKSEncoder::new(w.context.clone());
                let o = match catch(|| ce.decode_new(&dec)) { Ok(o) => o, Err(p) => return fail_key(key, format!("decode panicked: {p}")) };
                let cv: Vec<Complex64> = c.cvals.iter().take(half).map(|(a, b)| Complex64::new(*a as f64 / 2f64.powi(28), *b as f64 / 2f64.powi(28))).collect();
                let tol = ckks_tolerance(n, c.ps.logn, scale, maxv, e, (w.levels[level].qbits + 63) / 64);
                for i in 0..half { let (src, conj) = slot_map(i); let want = if conj { cv[src].conj() } else { cv[src] };
                    if !((o[i] - want).norm() <= tol) { return fail_key(key, format!("{what} (level {level}): slot {i} decodes to {} but the documented action gives {} (bound {:.2e})", o[i], want, tol)); } }
            } else {
                let got = rns_ntt_to_centered(w, level, dec.data());
                for i in 0..n { let ex = (i * g) % (2 * n); let want = if ex < n { ck[i].clone() } else { ck[i].negate() };
                    let d = got[ex % n].sub(&want).to_f64().abs();
                    if !(d <= e) { return fail_key(key, format!("{what} (level {level}): coefficient of X^{} differs from +-m_{i} by {d:.3e} > worst-case noise {e:.3e}", ex % n)); } }
            }
        }
    }
    Verdict::Pass(info)
}

pub fn def() -> PropertyDef {
    PropertyDef {
        id: "C04",
        level: "exploration",
        rule: "exhaustive: every odd Galois element g < 2N (direct key) and every rotation step -(N/2-1)..N/2-1 (direct key and default power-of-two set, i.e. NAF composition) for N in {4,8,16,32} (thorough 64) in BFV, BGV and CKKS at the first and the last level; random: parameter sets with a special prime (N=2..64, thorough 512), elements, steps, levels, key sets created directly / from steps / default / seed-compressed then expanded, column swap, conjugation, secret-key switching with a key-switching key, plaintext automorphisms in both representations. Oracle: decrypted polynomial vs m(X^g) by index arithmetic (BFV/BGV exactly; CKKS integer coefficients via own CRT within the worst-case noise), decoded slots vs the documented permutation / conjugation. non-trivial: g not in {3, 2N-1}, negative step, NAF length >= 2 or a lower level.",
        assumptions: vec!["noise model DESIGN.md §4 (key switching term per applied automorphism)", "key-switching semantics as in examples/keyswitching.rs: ciphertext under the other key, key generated by the target key's generator"],
        subs: vec![
            Sub::enumerate("all_elements_and_steps", exhaustive, oracle),
            Sub::prop("random_galois", 200_000, 1_000_000, 0.4, gal_case, oracle),
        ],
    }
}
