//! Property registry.
use crate::runner::PropertyDef;

pub mod c08;

pub fn get(id: &str) -> Option<PropertyDef> {
    match id {
        "C08" => Some(c08::def()),
        _ => None,
    }
}
