//! Property registry.
use crate::runner::PropertyDef;

pub mod c08;
pub mod c09;

pub fn get(id: &str) -> Option<PropertyDef> {
    match id {
        "C08" => Some(c08::def()),
        "C09" => Some(c09::def()),
        _ => None,
    }
}
