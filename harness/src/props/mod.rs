//! Property registry.
use crate::runner::PropertyDef;

pub mod c01;
pub mod c02;
pub mod c03;
pub mod c04;
pub mod c05;
pub mod c06;
pub mod c07;
pub mod c08;
pub mod c09;
pub mod c10;
pub mod c11;
pub mod c12;
pub mod c13;
pub mod c14;
pub mod c15;
pub mod c16;
pub mod c17;
pub mod c18;
pub mod c19;
pub mod c20;

pub fn get(id: &str) -> Option<PropertyDef> {
    match id {
        "C01" => Some(c01::def()),
        "C02" => Some(c02::def()),
        "C03" => Some(c03::def()),
        "C04" => Some(c04::def()),
        "C05" => Some(c05::def()),
        "C06" => Some(c06::def()),
        "C07" => Some(c07::def()),
        "C08" => Some(c08::def()),
        "C09" => Some(c09::def()),
        "C10" => Some(c10::def()),
        "C11" => Some(c11::def()),
        "C12" => Some(c12::def()),
        "C13" => Some(c13::def()),
        "C14" => Some(c14::def()),
        "C15" => Some(c15::def()),
        "C16" => Some(c16::def()),
        "C17" => Some(c17::def()),
        "C18" => Some(c18::def()),
        "C19" => Some(c19::def()),
        "C20" => Some(c20::def()),
        _ => None,
    }
}
