//! C16 — seeded expansion is reproducible, draws are fresh, samples are well-formed.
use crate::gen::params::*;
use crate::runner::*;
use heathcliff::util::rlwe::sample;
use heathcliff::util::{BlakeRNG, PRNGSeed};
use heathcliff::*;
use proptest::prelude::*;
use rand::{RngCore, SeedableRng};
use std::collections::HashSet;

fn seed_bytes(kind: u8, raw: &[u8]) -> [u8; 64] {
    let mut s = [0u8; 64];
    match kind % 6 { 0 => {}, 1 => s = [0xff; 64], 2 => { s[(raw[0] % 64) as usize] = 1 << (raw[1] % 8); } 3 => { s = [0xff; 64]; s[(raw[0] % 64) as usize] ^= 1 << (raw[1] % 8); }
        _ => { for i in 0..64 { s[i] = raw[i % raw.len()].wrapping_mul(31).wrapping_add((i as u8).wrapping_mul(raw[(i + 1) % raw.len()])); } } }
    s
}
fn rng(seed: [u8; 64]) -> BlakeRNG { BlakeRNG::from_seed(PRNGSeed(seed)) }

// ---------------------------------------------------------------------------------------------
#[derive(Clone, Debug, serde::Serialize, serde::Deserialize)]
pub struct StreamCase { pub seed_kind: u8, pub seed_raw: Vec<u8>, pub chunks: Vec<u16>, pub ops: Vec<(u8, u16)>, pub flip: (u8, u8) }

fn stream_case() -> BoxedStrategy<StreamCase> {
    (any::<u8>(), proptest::collection::vec(any::<u8>(), 8..24), proptest::collection::vec(prop_oneof![3 => 1u16..64, 2 => 64u16..4100, 1 => 4090u16..9000], 1..12),
     proptest::collection::vec((0u8..3, 1u16..5000), 0..20), any::<(u8, u8)>())
        .prop_map(|(seed_kind, seed_raw, chunks, ops, flip)| StreamCase { seed_kind, seed_raw, chunks, ops, flip }).boxed()
}

fn stream_oracle(c: &StreamCase) -> Verdict {
    let seed = seed_bytes(c.seed_kind, &c.seed_raw);
    // chunking independence of byte reads
    let total: usize = c.chunks.iter().map(|x| *x as usize).sum();
    let mut whole = vec![0u8; total];
    rng(seed).fill_bytes(&mut whole);
    let mut pieces = vec![0u8; total];
    { let mut g = rng(seed); let mut off = 0; for ch in &c.chunks { let l = *ch as usize; g.fill_bytes(&mut pieces[off..off + l]); off += l; } }
    if whole != pieces { let i = (0..total).find(|&i| whole[i] != pieces[i]).unwrap(); return fail(format!("byte stream depends on chunking: chunks {:?} differ from one {total}-byte read at offset {i}", c.chunks)); }
    let mut one_by_one = vec![0u8; total.min(5000)];
    { let mut g = rng(seed); for b in one_by_one.iter_mut() { let mut x = [0u8; 1]; g.fill_bytes(&mut x); *b = x[0]; } }
    check!(one_by_one[..] == whole[..one_by_one.len()], "byte-at-a-time reads differ from one bulk read");
    // determinism of an arbitrary interleaved call sequence
    let run = |mut g: BlakeRNG| -> Vec<u8> { let mut out = vec![]; for (k, l) in &c.ops { match k { 0 => out.extend_from_slice(&g.next_u32().to_le_bytes()), 1 => out.extend_from_slice(&g.next_u64().to_le_bytes()), _ => { let mut b = vec![0u8; *l as usize]; g.fill_bytes(&mut b); out.extend_from_slice(&b); } } } out };
    check!(run(rng(seed)) == run(rng(seed)), "two generators with the same seed and call sequence disagree");
    // a different seed gives a different start; no repetition inside the explored length
    let mut other = seed; other[(c.flip.0 % 64) as usize] ^= 1 << (c.flip.1 % 8);
    let mut a = [0u8; 64]; let mut b = [0u8; 64];
    rng(seed).fill_bytes(&mut a); rng(other).fill_bytes(&mut b);
    check!(a != b, "seeds differing in one bit produce the same first 64 bytes");
    let mut windows = HashSet::new();
    for w in whole.chunks_exact(32) { if !windows.insert(w.to_vec()) { return fail("a 32-byte window repeats within the explored output"); } }
    for blk in whole.chunks_exact(4096).collect::<Vec<_>>().windows(2) { check!(blk[0] != blk[1], "two consecutive 4096-byte blocks are identical (counter not advancing)"); }
    // informational: independent recomputation of the documented construction blake3-XOF(seed || counter_le)
    let mut matches_ref = true;
    { let mut off = 0usize; let mut counter = 0u64; while off < total { let mut h = blake3::Hasher::new(); h.update(&seed); h.update(&counter.to_le_bytes()); let mut blk = [0u8; 4096]; h.finalize_xof().fill(&mut blk);
        let l = (total - off).min(4096); if blk[..l] != whole[off..off + l] { matches_ref = false; } off += l; counter += 1; } }
    let refills = total / 4096;
    let unaligned = c.chunks.iter().scan(0usize, |s, x| { *s += *x as usize; Some(*s) }).any(|p| p % 4096 != 0 && p > 4096);
    Verdict::Pass(Info::new(refills >= 2 && unaligned).evals(4).label_if(refills >= 2, ">=2 refills").label_if(matches_ref, "agrees with blake3(seed||counter) XOF (informational)").label_if(!matches_ref, "DIFFERS from blake3(seed||counter) XOF (informational)"))
}

fn long_stream_cases(tier: Tier) -> Vec<StreamCase> {
    // 1 MiB (thorough 16 MiB) of output per seed kind, in 9000-byte reads
    let n = tier.pick(117, 1865);
    (0..6u8).map(|k| StreamCase { seed_kind: k, seed_raw: vec![k + 1, 7, 3, 200, 9, 11, 13, 17], chunks: vec![9000; n], ops: vec![], flip: (k, 3) }).collect()
}

// ---------------------------------------------------------------------------------------------
#[derive(Clone, Debug, serde::Serialize, serde::Deserialize)]
pub struct SampleCase { pub logn: u32, pub moduli: Vec<u64>, pub seed_raw: Vec<u8>, pub reps: u16 }

fn sample_case(tier: Tier) -> BoxedStrategy<SampleCase> {
    (1u32..=tier.pick(8, 11), proptest::collection::vec((2u32..=60, any::<u8>()), 1..=6), proptest::collection::vec(any::<u8>(), 8..24), 1u16..4)
        .prop_map(|(logn, specs, seed_raw, reps)| {
            let bits: Vec<u32> = specs.iter().map(|s| s.0.max(logn + 2)).collect(); let sels: Vec<u8> = specs.iter().map(|s| s.1).collect();
            SampleCase { logn, moduli: crate::gen::ntt_primes_distinct(logn, &bits, &sels), seed_raw, reps }
        }).boxed()
}

fn parms_of(logn: u32, moduli: &[u64]) -> EncryptionParameters {
    EncryptionParameters::new(SchemeType::CKKS).set_poly_modulus_degree(1usize << logn).set_coeff_modulus(&moduli.iter().map(|m| Modulus::new(*m)).collect::<Vec<_>>())
}

/// signed value carried by component j at coefficient i, if it is a consistent small value in every component
fn signed_consistent(d: &[u64], n: usize, moduli: &[u64], i: usize, bound: i64) -> Option<i64> {
    if moduli.iter().enumerate().any(|(j, &q)| d[j * n + i] >= q) { return None; }
    // some v in [-bound, bound] must reduce to the stored residue in every component (tiny moduli make v non-unique; any witness will do)
    (-bound..=bound).find(|v| moduli.iter().enumerate().all(|(j, &q)| (v.rem_euclid(q as i64)) as u64 == d[j * n + i]))
}

fn sample_oracle(c: &SampleCase) -> Verdict {
    let n = 1usize << c.logn; let k = c.moduli.len();
    let parms = parms_of(c.logn, &c.moduli);
    let seed = seed_bytes(4, &c.seed_raw);
    let mut g = rng(seed);
    let mut evals = 0u64;
    for _ in 0..c.reps {
        let mut d: Vec<u64> = (0..(n * k) as u64).map(|i| u64::MAX - 5 * i).collect(); // used before: the sampler has to overwrite every word
        if let Err(p) = catch(|| sample::ternary(&mut g, &parms, &mut d)) { return fail(format!("sample::ternary panicked: {p} (moduli {:?})", c.moduli)); }
        for i in 0..n { match signed_consistent(&d, n, &c.moduli, i, 1) { Some(_) => {}, None => return fail(format!("ternary sample: coefficient {i} is not one small signed value in every RNS component: {:?} (moduli {:?})", (0..k).map(|j| d[j * n + i]).collect::<Vec<_>>(), c.moduli)) } }
        let mut d: Vec<u64> = (0..(n * k) as u64).map(|i| u64::MAX - 5 * i).collect(); // used before: the sampler has to overwrite every word
        if let Err(p) = catch(|| sample::centered_binomial(&mut g, &parms, &mut d)) { return fail_key("C16/cbd", format!("sample::centered_binomial panicked: {p} (moduli {:?})", c.moduli)); }
        for i in 0..n { match signed_consistent(&d, n, &c.moduli, i, 21) { Some(_) => {}, None => return fail_key("C16/cbd", format!("error sample: coefficient {i} is not one signed value of magnitude <= 21 in every RNS component: {:?} (moduli {:?})", (0..k).map(|j| d[j * n + i]).collect::<Vec<_>>(), c.moduli)) } }
        let mut d: Vec<u64> = (0..(n * k) as u64).map(|i| u64::MAX - 5 * i).collect(); // used before: the sampler has to overwrite every word
        if let Err(p) = catch(|| sample::uniform(&mut g, &parms, &mut d)) { return fail(format!("sample::uniform panicked: {p}")); }
        for j in 0..k { for i in 0..n { check!(d[j * n + i] < c.moduli[j], "uniform sample {} not below modulus {}", d[j * n + i], c.moduli[j]); } }
        evals += 3;
    }
    Verdict::Pass(Info::new(k >= 2).evals(evals).label(format!("k={k}")).label_if(c.moduli.iter().any(|m| *m < 43), "prime below 43"))
}

// ---------------------------------------------------------------------------------------------
// distribution tests (deterministic: the generator is seeded from the case)
#[derive(Clone, Debug, serde::Serialize, serde::Deserialize)]
pub struct DistCase { pub seed: u8 }

/// upper-tail probability of a chi-square statistic (Wilson-Hilferty normal approximation; adequate at the 1e-9 level for df >= 2)
fn chi2_tail(x: f64, df: f64) -> f64 {
    let z = ((x / df).powf(1.0 / 3.0) - (1.0 - 2.0 / (9.0 * df))) / (2.0 / (9.0 * df)).sqrt();
    0.5 * erfc(z / std::f64::consts::SQRT_2)
}
fn erfc(x: f64) -> f64 { // Abramowitz-Stegun 7.1.26 with symmetric extension; relative error ~1e-7, fine for a 1e-9 threshold with slack below
    let t = 1.0 / (1.0 + 0.3275911 * x.abs());
    let y = t * (0.254829592 + t * (-0.284496736 + t * (1.421413741 + t * (-1.453152027 + t * 1.061405429)))) * (-x * x).exp();
    if x >= 0.0 { y } else { 2.0 - y }
}

fn dist_stats(seed: [u8; 64], draws: usize) -> Vec<(String, f64)> {
    let logn = 10u32; let n = 1usize << logn;
    let moduli = vec![crate::gen::ntt_prime(logn, 40, 0)];
    let parms = parms_of(logn, &moduli);
    let q = moduli[0];
    let mut g = rng(seed);
    let rounds = draws / n;
    let mut tern = [0f64; 3]; let mut cbd = vec![0f64; 43]; let mut uni = vec![0f64; 64];
    let (mut sum, mut sumsq) = (0f64, 0f64);
    for _ in 0..rounds {
        let mut d = vec![0u64; n];
        sample::ternary(&mut g, &parms, &mut d); for &x in &d { tern[if x == 0 { 0 } else if x == 1 { 1 } else { 2 }] += 1.0; }
        sample::centered_binomial(&mut g, &parms, &mut d); for &x in &d { let v = if x > q / 2 { x as i64 - q as i64 } else { x as i64 }; if (-21..=21).contains(&v) { cbd[(v + 21) as usize] += 1.0; } sum += v as f64; sumsq += (v * v) as f64; }
        sample::uniform(&mut g, &parms, &mut d); for &x in &d { uni[((x as u128 * 64) / q as u128) as usize] += 1.0; }
    }
    let total = (rounds * n) as f64;
    let mut out = vec![];
    let e = total / 3.0; out.push(("ternary frequencies".to_string(), chi2_tail(tern.iter().map(|o| (o - e) * (o - e) / e).sum(), 2.0)));
    // Binomial(42, 1/2) - 21, cells with expectation < 5 pooled into the tails
    let mut pmf = vec![0f64; 43]; { let mut c = 1f64; for k in 0..=42 { pmf[k] = c / 2f64.powi(42); c = c * (42 - k) as f64 / (k + 1) as f64; } }
    let (mut x2, mut df, mut pool_o, mut pool_e) = (0f64, 0f64, 0f64, 0f64);
    for k in 0..=42 { let ex = pmf[k] * total; if ex < 5.0 { pool_o += cbd[k]; pool_e += ex; } else { x2 += (cbd[k] - ex) * (cbd[k] - ex) / ex; df += 1.0; } }
    if pool_e > 0.0 { x2 += (pool_o - pool_e) * (pool_o - pool_e) / pool_e.max(1e-9).max(0.5); }
    out.push(("error distribution vs Binomial(42,1/2)-21".to_string(), chi2_tail(x2, df.max(2.0))));
    let mean = sum / total; let var = sumsq / total - mean * mean;
    // mean ~ N(0, 10.5/total); variance 10.5 with sd ~ sqrt((mu4 - var^2)/total), mu4 of the binomial = 3 var^2 - var/... use generous 6-sigma bounds
    let zmean = mean / (10.5 / total).sqrt(); out.push(("error mean".to_string(), erfc(zmean.abs() / std::f64::consts::SQRT_2)));
    let mu4 = 3.0 * 10.5 * 10.5 - 10.5 / 2.0; let zvar = (var - 10.5) / ((mu4 - 10.5 * 10.5) / total).sqrt(); out.push(("error variance".to_string(), erfc(zvar.abs() / std::f64::consts::SQRT_2)));
    let e = total / 64.0; out.push(("uniform buckets".to_string(), chi2_tail(uni.iter().map(|o| (o - e) * (o - e) / e).sum(), 63.0)));
    out
}

fn dist_oracle(c: &DistCase) -> Verdict {
    let draws = 1 << 20;
    let s1 = dist_stats(seed_bytes(4, &[c.seed, 1, 2, 3, 4, 5, 6, 7]), draws);
    for (name, p) in &s1 {
        if *p < 1e-9 {
            // confirm under a second, derived seed before reporting
            let s2 = dist_stats(seed_bytes(4, &[c.seed, 9, 8, 7, 6, 5, 4, 3]), draws);
            let p2 = s2.iter().find(|(n2, _)| n2 == name).map(|x| x.1).unwrap_or(1.0);
            if p2 < 1e-6 { return fail(format!("empirical distribution does not match the specification: {name} has p-value {p:.2e} (and {p2:.2e} under a second seed) on 2^20 draws")); }
        }
    }
    Verdict::Pass(Info::new(true).evals(3 * draws as u64).label(format!("min p-value >= {:.0e}", s1.iter().map(|x| x.1).fold(1.0, f64::min).max(1e-12))))
}

// ---------------------------------------------------------------------------------------------
// freshness of encryptions and key generations; reproducibility under an explicit generator
#[derive(Clone, Debug, serde::Serialize, serde::Deserialize)]
pub struct FreshCase { pub ps: ParamSet, pub history: Vec<u8>, pub prng_seed: u8 }

fn fresh_case(tier: Tier) -> BoxedStrategy<FreshCase> {
    // masks that are functions of a ternary polynomial (the public-key mask u - the error terms are rounded away by the switch
    // down from the key level - and secret keys) have only 3^N values: they are compared for N >= 64 only (3^64 ~ 2^101; at
    // N = 16, 3^16 ~ 4e7 and honest birthday collisions occur about once in fifty runs). Uniform masks and stored seeds always.
    let cfg = ParamCfg { schemes: vec![Scheme::BFV, Scheme::BGV, Scheme::CKKS], logn_lo: 4, logn_hi: tier.pick(7, 8), logn_small: 6, k_lo: 2, k_hi: 4, bits_lo: 30, bits_hi: 60, t_kind: TKind::Any, t_bits_lo: 4, t_bits_hi: 20,
        need_keyswitching: true, allow_special_flag: false, always_expand: true };
    (cfg.strategy(), proptest::collection::vec(0u8..8, 2..50), any::<u8>()).prop_map(|(ps, history, prng_seed)| FreshCase { ps, history, prng_seed }).boxed()
}

fn fresh_oracle(c: &FreshCase) -> Verdict {
    let w = match World::new(&c.ps) { Ok(w) => w, Err(e) => return fail_key("harness/params", e) };
    // real entropy from here on: the override is removed so that the library's own freshness is what is observed
    heathcliff::verif_hooks::set_entropy_override(None);
    let n = w.n;
    let plain = match w.ps.scheme { Scheme::CKKS => CKKSEncoder::new(w.context.clone()).encode_f64_single_new(1.0, None, 256.0), _ => BatchEncoder::new(w.context.clone()).encode_polynomial_new(&[1]) };
    let mut masks: HashSet<Vec<u64>> = HashSet::new();
    let mut count = 0usize;
    let mut note = |words: Vec<u64>, what: &str| -> Result<(), String> { count += 1; if !masks.insert(words) { Err(format!("{what}: mask polynomial / stored seed repeats one produced earlier in the same history")) } else { Ok(()) } };
    let seed_words = |ct: &Ciphertext| -> Vec<u64> { ct.poly(1)[1..9].to_vec() };
    for (i, h) in c.history.iter().enumerate() {
        let r: Result<(), String> = (|| { match h {
            0 => { let ct = w.encryptor.encrypt_new(&plain); if n < 64 { return Ok(()); } note(ct.poly(1).to_vec(), "public-key encryption")?; note(ct.poly(0).to_vec(), "public-key encryption c0") }
            1 => { let mut ct = Ciphertext::new(); w.encryptor.encrypt_symmetric(&plain, &mut ct); note(ct.poly(1).to_vec(), "symmetric encryption") }
            2 => { let ct = w.encryptor.encrypt_symmetric_new(&plain); if ct.contains_seed() { note(seed_words(&ct), "seeded symmetric encryption (stored seed)") } else { note(ct.poly(1).to_vec(), "symmetric encryption") } }
            3 => { let ct = w.encryptor.encrypt_zero_new(); if n < 64 { return Ok(()); } note(ct.poly(1).to_vec(), "zero encryption") }
            4 => { let pk = w.keygen.create_public_key(false); note(pk.as_ciphertext().poly(1).to_vec(), "public key") }
            5 => { let rk = w.keygen.create_relin_keys(i % 2 == 0); for kv in rk.as_kswitch_keys().keys() { for pk in kv { let ct = pk.as_ciphertext(); if ct.contains_seed() { note(seed_words(ct), "relinearization key (stored seed)")?; } else { note(ct.poly(1).to_vec(), "relinearization key")?; } } } Ok(()) }
            6 => { let gk = w.keygen.create_galois_keys_from_elts(&[3, 2 * n - 1], i % 2 == 1); for kv in gk.as_kswitch_keys().keys() { for pk in kv { let ct = pk.as_ciphertext(); if ct.contains_seed() { note(seed_words(ct), "Galois key (stored seed)")?; } else { note(ct.poly(1).to_vec(), "Galois key")?; } } } Ok(()) }
            _ => { let kg = KeyGenerator::new(w.context.clone()); if n < 64 { return Ok(()); } note(kg.secret_key().data().clone(), "secret key") }
        } })();
        if let Err(m) = r { return fail(format!("step {i} of {:?}: {m}", c.history)); }
    }
    // same explicit mask-generator state => exactly the same mask
    let p = [c.prng_seed; 64];
    let a = w.encryptor.encrypt_symmetric_new_with_u_prng(&plain, &mut rng(p)); let b = w.encryptor.encrypt_symmetric_new_with_u_prng(&plain, &mut rng(p));
    let (ae, be) = (if a.contains_seed() { a.clone().expand_seed(&w.context) } else { a }, if b.contains_seed() { b.clone().expand_seed(&w.context) } else { b });
    check!(ae.poly(1) == be.poly(1), "two symmetric encryptions handed the same mask-generator state derived different masks");
    check!(ae.poly(0) != be.poly(0) || n * w.levels[0].moduli.len() < 4, "two symmetric encryptions with the same mask also share their error polynomial");
    // public-key encryption with an explicit mask generator: only the ternary mask u comes from it, the error polynomials are
    // fresh - two calls from the same generator state must not coincide. Observable where no rounding removes the errors:
    // encryption directly at the key level (no switch-down by a special prime).
    {
        let kid = *w.context.key_parms_id();
        let kk = w.key_moduli.len();
        let two = catch(|| (w.encryptor.encrypt_zero_new_at_with_u_prng(&kid, &mut rng(p)), w.encryptor.encrypt_zero_new_at_with_u_prng(&kid, &mut rng(p))));
        if let Ok((x, y)) = two { if n * kk >= 8 {
            check!(x.poly(1) != y.poly(1) && x.poly(0) != y.poly(0), "two public-key encryptions handed the same mask-generator state are identical: the error polynomials are not fresh");
            // ... and the same mask u: c1 - c1' = e1 - e1' is a difference of two error polynomials (|.| <= 42, times t in BGV),
            // looked at in the first RNS component in coefficient form
            let q0 = w.key_moduli[0];
            let mut d: Vec<u64> = (0..n).map(|i| crate::refmath::submod(x.poly(1)[i], y.poly(1)[i], q0)).collect();
            if x.is_ntt_form() { w.context.key_context_data().unwrap().small_ntt_tables()[0].inverse_ntt_negacyclic_harvey(&mut d); }
            let bound = 42u128 * if w.ps.scheme == Scheme::BGV { w.ps.t.max(1) as u128 } else { 1 };
            if (2 * bound + 1) < q0 as u128 {
                let worst = d.iter().map(|v| (*v).min(q0 - *v)).max().unwrap_or(0) as u128;
                check!(worst <= bound, "two public-key encryptions handed the same mask-generator state do not share their mask: c1 - c1' has a coefficient of magnitude {worst} (two error terms allow {bound})");
            }
        } }
    }
    let a = w.keygen.create_public_key_with_u_prng(false, &mut rng(p)); let b = w.keygen.create_public_key_with_u_prng(false, &mut rng(p));
    check!(a.as_ciphertext().poly(1) == b.as_ciphertext().poly(1), "two public keys generated from the same mask-generator state have different masks");
    // seeded object expands identically in an independently built context
    let sct = w.encryptor.encrypt_symmetric_new(&plain);
    if sct.contains_seed() {
        let ctx2 = HeContext::new(build_params(&c.ps), c.ps.expand_chain, SecurityLevel::None);
        let e1 = sct.clone().expand_seed(&w.context); let e2 = sct.clone().expand_seed(&ctx2); let e3 = sct.clone().expand_seed(&w.context);
        check!(e1.data() == e2.data() && e1.data() == e3.data(), "a seed-compressed ciphertext expands differently on a second expansion / in an independently built context");
    }
    Verdict::Pass(Info::new(c.history.len() >= 10).evals(count as u64 + 4).label(format!("{:?}", c.ps.scheme)).label_if(c.history.len() >= 10, "history >= 10"))
}

// ---------------------------------------------------------------------------------------------
// seed-compressed objects expand to exactly the stream their stored seed defines, at every degree (the seed may spill over
// the first RNS component when N < 9), and key containers keep their shape
#[derive(Clone, Debug, serde::Serialize, serde::Deserialize)]
pub struct ExpandCase { pub ps: ParamSet, pub which: u8, pub sel: u16 }

fn expand_case(tier: Tier) -> BoxedStrategy<ExpandCase> {
    let cfg = ParamCfg { schemes: vec![Scheme::BFV, Scheme::BGV, Scheme::CKKS], logn_lo: 1, logn_hi: tier.pick(6, 9), logn_small: 3, k_lo: 2, k_hi: 7, bits_lo: 25, bits_hi: 60, t_kind: TKind::Any, t_bits_lo: 4, t_bits_hi: 20,
        need_keyswitching: true, allow_special_flag: false, always_expand: true };
    (cfg.strategy(), any::<u8>(), any::<u16>()).prop_map(|(ps, which, sel)| ExpandCase { ps, which, sel }).boxed()
}

/// the polynomial the stored seed of a seed-compressed two-component object defines: BlakeRNG(seed) -> uniform at the object's level
fn expected_mask(ctx: &HeContext, ct: &Ciphertext) -> Option<Vec<u64>> {
    let c1 = ct.poly(1);
    if !ct.contains_seed() || c1.len() < 9 { return None; }
    let mut seed = [0u8; 64];
    for (i, w) in c1[1..9].iter().enumerate() { seed[8 * i..8 * i + 8].copy_from_slice(&w.to_le_bytes()); }
    let cd = ctx.get_context_data(ct.parms_id())?;
    let mut out = vec![0u64; c1.len()];
    sample::uniform(&mut rng(seed), cd.parms(), &mut out);
    Some(out)
}

fn expand_oracle(c: &ExpandCase) -> Verdict {
    let w = match World::new(&c.ps) { Ok(w) => w, Err(e) => return fail_key("harness/params", e) };
    let n = w.n;
    let plain = match w.ps.scheme { Scheme::CKKS => CKKSEncoder::new(w.context.clone()).encode_f64_single_new(1.0, None, 256.0), _ => BatchEncoder::new(w.context.clone()).encode_polynomial_new(&[1]) };
    let mut seeded = 0u64; let mut spill = false;
    let mut check_ct = |ct: &Ciphertext, what: &str| -> Result<(), String> {
        if let Some(want) = expected_mask(&w.context, ct) {
            seeded += 1; if n < 9 { spill = true; }
            let c0 = ct.poly(0).to_vec();
            let e = catch(|| ct.clone().expand_seed(&w.context)).map_err(|p| format!("{what}: expand_seed panicked: {p}"))?;
            if e.contains_seed() { return Err(format!("{what}: still seed-compressed after expansion")); }
            if e.poly(1) != &want[..] { return Err(format!("{what}: the expanded second polynomial is not the uniform polynomial defined by the stored seed (N={n}, {} components)", want.len() / n)); }
            if e.poly(0) != &c0[..] || e.parms_id() != ct.parms_id() || e.is_ntt_form() != ct.is_ntt_form() || e.size() != 2 { return Err(format!("{what}: expansion changed the first polynomial or the metadata")); }
        }
        Ok(())
    };
    let keys_ok = |k: &KSwitchKeys, what: &str, check_ct: &mut dyn FnMut(&Ciphertext, &str) -> Result<(), String>| -> Result<(), String> {
        let shape: Vec<usize> = k.keys().iter().map(|v| v.len()).collect();
        for v in k.keys() { for pk in v { check_ct(pk.as_ciphertext(), what)?; } }
        if !k.contains_seed() { return Ok(()); } // (nothing stored: the member polynomials are too small to hold a seed; expanding is refused by contract)
        let e = catch(|| k.clone().expand_seed(&w.context)).map_err(|p| format!("{what}: expand_seed panicked: {p}"))?;
        let shape2: Vec<usize> = e.keys().iter().map(|v| v.len()).collect();
        if shape != shape2 { return Err(format!("{what}: expansion changed the key table (entries per slot {shape:?} -> {shape2:?})")); }
        for (v, v2) in k.keys().iter().zip(e.keys().iter()) { for (a, b) in v.iter().zip(v2.iter()) {
            if let Some(want) = expected_mask(&w.context, a.as_ciphertext()) { if b.as_ciphertext().poly(1) != &want[..] || b.as_ciphertext().poly(0) != a.as_ciphertext().poly(0) { return Err(format!("{what}: a member key of the expanded table is not the expansion of the member at the same place")); } }
        } }
        Ok(())
    };
    let r: Result<(), String> = (|| {
        match c.which % 6 {
            0 => check_ct(&w.encryptor.encrypt_symmetric_new(&plain), "seeded symmetric encryption"),
            1 => { let lvl = pick_idx(c.sel, w.levels.len()); check_ct(&w.encryptor.encrypt_zero_symmetric_new_at(&w.levels[lvl].parms_id), &format!("seeded zero encryption at level {lvl}")) }
            2 => check_ct(w.keygen.create_public_key(true).as_ciphertext(), "seeded public key"),
            3 => keys_ok(w.keygen.create_relin_keys(true).as_kswitch_keys(), "seeded relinearization keys", &mut check_ct),
            4 => { let elts: Vec<usize> = if n >= 2 { vec![3 % (2 * n) | 1, 2 * n - 1, (2 * (c.sel as usize % n) + 1) % (2 * n)] } else { vec![1] };
                   let mut e2 = elts.clone(); e2.sort(); e2.dedup(); e2.retain(|x| *x != 1);
                   if e2.is_empty() { return Ok(()); }
                   keys_ok(w.keygen.create_galois_keys_from_elts(&e2, true).as_kswitch_keys(), "seeded Galois keys", &mut check_ct) }
            _ => { let other = KeyGenerator::new(w.context.clone()); keys_ok(&w.keygen.create_keyswitching_key(other.secret_key(), true), "seeded key-switching key", &mut check_ct) }
        }
    })();
    if let Err(m) = r { return fail(format!("{:?} N={n} moduli {:?}: {m}", c.ps.scheme, c.ps.moduli)); }
    Verdict::Pass(Info::new(seeded > 0).evals(seeded.max(1)).label(format!("{:?}", c.ps.scheme)).label_if(spill, "seed spills over the first component (N<9)").label_if(seeded == 0, "no seed stored (object too small)"))
}

pub fn def() -> PropertyDef {
    PropertyDef {
        id: "C16",
        level: "exploration",
        rule: "stream: 64-byte seeds (all-zero, all-ones, single-bit, single-zero-bit, random) x chunk lists of 1..9000-byte reads crossing several 4096-byte refills x interleaved next_u32 / next_u64 / fill_bytes sequences, plus 1 MiB (thorough 16 MiB) per seed kind for the no-repetition clause; metamorphic oracles: chunked reads = one bulk read = byte-at-a-time reads, same seed + same calls = same output, one-bit-different seeds differ, no repeated aligned 32-byte window, consecutive blocks differ (agreement with an independent blake3 XOF recomputation is recorded as information only). samples: ternary / error / uniform samplers on 1..6 primes of 2..60 bits (incl. primes below 43): one small signed value per coefficient consistent across components, |e| <= 21, uniform below each modulus; distribution tests on 2^20 draws at p = 1e-9 with confirmation under a second seed. freshness (hook H2 removed): histories of 2..50 encryptions / key generations: all uniform masks and stored seeds pairwise distinct, masks that are functions of a ternary polynomial (public-key encryptions, secret keys) for N >= 64; identical explicit generator state gives identical masks; seeded objects expand identically twice and in an independently built context. expansion: for N = 2..64 (thorough 512) and 2..7 primes every seed-compressed ciphertext, public key, relinearization / Galois / key-switching key expands to exactly uniform(BlakeRNG(stored seed)) at its level, first polynomial and metadata unchanged, key tables keep their slot structure. non-trivial: >= 2 refills with a non-aligned boundary / >= 2 primes / history >= 10 / a seed was stored.",
        assumptions: vec!["statistical thresholds: a false alarm needs p < 1e-9 and p < 1e-6 under a second seed; the generators are seeded from the case, so the verdict is deterministic", "the exact PRF is not asserted (information only)"],
        subs: vec![
            Sub::prop("stream_chunking", 100_000, 600_000, 0.2, |_| stream_case(), stream_oracle),
            Sub::enumerate("long_streams", long_stream_cases, stream_oracle),
            Sub::prop("sampler_wellformedness", 200_000, 1_200_000, 0.3, sample_case, sample_oracle),
            Sub::enumerate("sampler_distributions", |t| (0..t.pick(8u8, 64u8)).map(|s| DistCase { seed: s }).collect(), dist_oracle),
            Sub::prop("seed_expansion", 40_000, 300_000, 0.3, expand_case, expand_oracle),
            Sub::prop("freshness_histories", 30_000, 200_000, 0.3, fresh_case, fresh_oracle),
        ],
    }
}
