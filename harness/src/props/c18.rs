//! C18 — multiparty protocols agree across parties and message orders and keep plaintexts.
//!
//! A case is a *session*: n parties created over one context with the same common-tape seed run a
//! generated sequence of protocols (the same sequence for everybody, so the tape stays aligned).
//! Within every round the n(n-1) messages are delivered in a generated order; optionally one message
//! is withheld, and then exactly the party that misses it must refuse to go on.
//! Oracle side: the harness adds up the parties' secret keys itself (u128 arithmetic) and observes
//! every output through (a) equality across parties, (b) an ordinary Decryptor under the summed /
//! target key, (c) for the collective keys the exact phase `k0 + k1 s [- P s^2]` whose centered
//! norm must stay below the worst-case error of the protocol.
use crate::bigint::*;
use crate::gen::params::*;
use crate::gen::*;
use crate::prog::ExpandIfAny;
use crate::props::c04::rns_ntt_to_centered;
use crate::refmath as rm;
use crate::runner::*;
use crate::shadow::*;
use heathcliff::multiparty::participant::*;
use heathcliff::multiparty::utils::{BFVShareSampler, BFVSimdShareEncoder};
use heathcliff::util::{BlakeRNG, PRNGSeed};
use heathcliff::*;
use proptest::prelude::*;
use rand::SeedableRng;

#[derive(Clone, Copy, Debug, PartialEq, Eq, serde::Serialize, serde::Deserialize)]
pub enum Proto { PkGen, RlkGen, SkReveal, Decrypt, KeySwitch, PubKeySwitch, ToShares, FromShares, ShareRoundTrip }

#[derive(Clone, Debug, serde::Serialize, serde::Deserialize)]
pub struct StepSpec {
    pub proto: Proto,
    /// delivery-order selectors: the k-th delivery takes pending[pick_idx(order[k], pending.len())]
    pub order: Vec<u16>,
    /// withhold one message: (round selector, pair selector)
    pub drop: Option<(u8, u16)>,
    pub level_sel: u16,
    pub alt_form: bool,
    pub use_pk: bool,
}

#[derive(Clone, Debug, serde::Serialize, serde::Deserialize)]
pub struct MpCase { pub ps: ParamSet, pub parties: u8, pub tape: Vec<u8>, pub steps: Vec<StepSpec>, pub coeffs: Vec<(u8, u64)>, pub coeffs2: Vec<(u8, u64)>, pub shares: Vec<u64> }

fn tape_rng(raw: &[u8]) -> BlakeRNG {
    let mut s = [0u8; 64];
    for i in 0..64 { s[i] = raw[i % raw.len().max(1)].wrapping_mul(29).wrapping_add((i as u8).wrapping_mul(raw[(i + 3) % raw.len().max(1)] | 1)); }
    if raw.first() == Some(&0) { s = [0u8; 64]; }
    BlakeRNG::from_seed(PRNGSeed(s))
}

fn proto_strategy() -> BoxedStrategy<Proto> {
    prop_oneof![3 => Just(Proto::PkGen), 3 => Just(Proto::RlkGen), 1 => Just(Proto::SkReveal), 3 => Just(Proto::Decrypt), 3 => Just(Proto::KeySwitch), 3 => Just(Proto::PubKeySwitch),
        2 => Just(Proto::ToShares), 2 => Just(Proto::FromShares), 2 => Just(Proto::ShareRoundTrip)].boxed()
}

fn step_strategy() -> BoxedStrategy<StepSpec> {
    (proto_strategy(), proptest::collection::vec(any::<u16>(), 1..40), prop_oneof![4 => Just(None), 1 => any::<(u8, u16)>().prop_map(Some)], any::<u16>(), prop_oneof![4 => Just(false), 1 => Just(true)], any::<bool>())
        .prop_map(|(proto, order, drop, level_sel, alt_form, use_pk)| StepSpec { proto, order, drop, level_sel, alt_form, use_pk }).boxed()
}

fn mp_cfg(tier: Tier, batching: bool) -> ParamCfg {
    ParamCfg { schemes: if batching { vec![Scheme::BFV, Scheme::BGV] } else { vec![Scheme::BFV, Scheme::BGV, Scheme::CKKS] }, logn_lo: 2, logn_hi: tier.pick(6, 9), logn_small: 4, k_lo: 2, k_hi: 4, bits_lo: 36, bits_hi: 60,
        t_kind: if batching { TKind::BatchingOnly } else { TKind::Any }, t_bits_lo: 2, t_bits_hi: 20, need_keyswitching: true, allow_special_flag: false, always_expand: false }
}

fn mp_case(tier: Tier) -> BoxedStrategy<MpCase> {
    let ps = prop_oneof![1 => mp_cfg(tier, false).strategy(), 1 => mp_cfg(tier, true).strategy()];
    (ps, prop_oneof![3 => Just(2u8), 3 => Just(3u8), 2 => Just(4u8), 1 => Just(5u8), 1 => Just(6u8)], proptest::collection::vec(any::<u8>(), 4..12), proptest::collection::vec(step_strategy(), 1..5))
        .prop_flat_map(|(ps, parties, tape, steps)| {
            let n = 1usize << ps.logn;
            (Just(ps), Just(parties), Just(tape), Just(steps), proptest::collection::vec((any::<u8>(), any::<u64>()), n), proptest::collection::vec((any::<u8>(), any::<u64>()), n), proptest::collection::vec(any::<u64>(), n * 6))
        }).prop_map(|(ps, parties, tape, steps, coeffs, coeffs2, shares)| MpCase { ps, parties, tape, steps, coeffs, coeffs2, shares }).boxed()
}

/// selector that makes pick_idx choose index i out of len
fn sel_for(i: usize, len: usize) -> u16 { (((i << 16) + len - 1) / len).min(65535) as u16 }

/// every delivery order for n = 2 and 3 (one round), every single withheld message, for each protocol
fn exhaustive(tier: Tier) -> Vec<MpCase> {
    let mut out = vec![];
    let protos = [Proto::PkGen, Proto::RlkGen, Proto::SkReveal, Proto::Decrypt, Proto::KeySwitch, Proto::PubKeySwitch, Proto::ToShares, Proto::FromShares, Proto::ShareRoundTrip];
    for scheme in [Scheme::BFV, Scheme::BGV, Scheme::CKKS] {
        let logn = 3u32;
        let moduli = ntt_primes_distinct(logn, &[50, 48, 52], &[0, 1, 2]);
        let t = if scheme == Scheme::CKKS { 0 } else { ntt_prime(logn, 12, 1) };
        let n = 1usize << logn;
        let coeffs: Vec<(u8, u64)> = (0..n).map(|i| (8, (i as u64 + 3).wrapping_mul(0x9E3779B97F4A7C15))).collect();
        let coeffs2: Vec<(u8, u64)> = (0..n).map(|i| (8, (i as u64 + 11).wrapping_mul(0xD1B54A32D192ED03))).collect();
        let shares: Vec<u64> = (0..n * 6).map(|i| (i as u64 + 1).wrapping_mul(0x2545F4914F6CDD1D)).collect();
        for parties in [2u8, 3u8] {
            let pairs = parties as usize * (parties as usize - 1);
            // all permutations of the deliveries as Lehmer codes
            let mut perms: Vec<Vec<usize>> = vec![vec![]];
            for len in (1..=pairs).rev() { let mut next = vec![]; for p in &perms { for i in 0..len { let mut q = p.clone(); q.push(i); next.push(q); } } perms = next; }
            let stride = if parties == 3 { tier.pick(7, 1) } else { 1 };
            for (pi, proto) in protos.iter().enumerate() {
                if scheme == Scheme::CKKS && matches!(proto, Proto::ToShares | Proto::FromShares | Proto::ShareRoundTrip) { continue; }
                for (k, perm) in perms.iter().enumerate() {
                    if (k + pi) % stride != 0 { continue; }
                    let order: Vec<u16> = perm.iter().enumerate().map(|(j, &i)| sel_for(i, pairs - j)).collect();
                    let ps = ParamSet { scheme, logn, moduli: moduli.clone(), t, expand_chain: false, special_flag: false, entropy: 7000 + k as u64 };
                    out.push(MpCase { ps, parties, tape: vec![1 + (k % 250) as u8, 2, 3, 4], steps: vec![StepSpec { proto: *proto, order, drop: None, level_sel: 0, alt_form: false, use_pk: false }], coeffs: coeffs.clone(), coeffs2: coeffs2.clone(), shares: shares.clone() });
                }
                // every withheld message in every round
                for round in 0..2u8 { for d in 0..pairs {
                    if round == 1 && *proto != Proto::RlkGen && *proto != Proto::ShareRoundTrip { continue; }
                    let ps = ParamSet { scheme, logn, moduli: moduli.clone(), t, expand_chain: false, special_flag: false, entropy: 9000 + d as u64 };
                    out.push(MpCase { ps, parties, tape: vec![9, 8, 7, d as u8], steps: vec![StepSpec { proto: *proto, order: vec![0], drop: Some((round, sel_for(d, pairs))), level_sel: 0, alt_form: false, use_pk: false }], coeffs: coeffs.clone(), coeffs2: coeffs2.clone(), shares: shares.clone() });
                } }
            }
        }
    }
    out
}

// ---------------------------------------------------------------------------------------------
// message plumbing

struct Delivery { order: Vec<(usize, usize)>, dropped: Option<(usize, usize)> }

/// One broadcast round. `pairs` = (receiver, sender) in canonical order. Returns the delivery order used.
fn run_round<P>(protos: &mut [P], pairs: Vec<(usize, usize)>, order: &[u16], drop: Option<u16>,
    send: &dyn Fn(&P, &mut Vec<u8>) -> std::io::Result<()>, recv: &dyn Fn(&mut P, usize, &mut &[u8]) -> std::io::Result<()>) -> Result<Delivery, String> {
    let n = protos.len();
    let mut msgs: Vec<Option<Vec<u8>>> = vec![None; n];
    // a party whose selector bit is set is a late sender: it produces its message only when its first delivery is due, i.e. possibly
    // after it has itself received messages of this round (an asynchronous network; the message must still be its own share only)
    let late = |s: usize| (order[s % order.len()] >> 3) & 1 == 1;
    for &(_, s) in &pairs {
        if msgs[s].is_none() && !late(s) {
            let mut buf = vec![];
            match catch(|| send(&protos[s], &mut buf)) { Ok(Ok(())) => {}, Ok(Err(e)) => return Err(format!("party {s}: send failed: {e}")), Err(p) => return Err(format!("party {s}: send panicked: {p}")) }
            msgs[s] = Some(buf);
        }
    }
    let dropped = drop.and_then(|d| if pairs.is_empty() { None } else { Some(pairs[pick_idx(d, pairs.len())]) });
    let mut pending: Vec<(usize, usize)> = pairs.into_iter().filter(|p| Some(*p) != dropped).collect();
    let mut out = vec![]; let mut k = 0usize;
    while !pending.is_empty() {
        let i = pick_idx(order[k % order.len()], pending.len()); k += 1;
        let (r, s) = pending.remove(i);
        if msgs[s].is_none() {
            let mut buf = vec![];
            match catch(|| send(&protos[s], &mut buf)) { Ok(Ok(())) => {}, Ok(Err(e)) => return Err(format!("party {s}: send (after receiving) failed: {e}")), Err(p) => return Err(format!("party {s}: send (after receiving) panicked: {p}")) }
            msgs[s] = Some(buf);
        }
        let m = msgs[s].as_ref().unwrap();
        match catch(|| recv(&mut protos[r], s, &mut m.as_slice())) { Ok(Ok(())) => {}, Ok(Err(e)) => return Err(format!("party {r}: receiving the message of party {s} failed: {e}")), Err(p) => return Err(format!("party {r}: receiving the message of party {s} panicked: {p}")) }
        out.push((r, s));
    }
    Ok(Delivery { order: out, dropped })
}

fn all_pairs(n: usize) -> Vec<(usize, usize)> { let mut v = vec![]; for r in 0..n { for s in 0..n { if r != s { v.push((r, s)); } } } v }
fn is_canonical(d: &Delivery, pairs: &[(usize, usize)]) -> bool { d.dropped.is_none() && d.order == pairs }

/// finish every party; the party that misses a message must refuse, everybody else must deliver
fn finish_all<P, T>(key: &str, what: &str, protos: Vec<P>, dropped: Option<(usize, usize)>, fin: &dyn Fn(P) -> T, fails: &mut Fails) -> Vec<Option<T>> {
    let mut out = vec![];
    for (i, p) in protos.into_iter().enumerate() {
        let res = catch(|| fin(p));
        if dropped.map(|d| d.0) == Some(i) {
            if res.is_ok() { fails.add(format!("{key}/incomplete-finish"), format!("{what}: party {i} never received the message of party {} but finish() returned a result", dropped.unwrap().1)); }
            out.push(None);
        } else {
            match res { Ok(v) => out.push(Some(v)), Err(p) => { fails.add(format!("{key}/finish"), format!("{what}: party {i} had every message but finish() panicked: {p}")); out.push(None); } }
        }
    }
    out
}

// ---------------------------------------------------------------------------------------------
// oracle helpers

struct Sess<'a> {
    w: &'a World, n: usize, np: usize, scheme: Scheme, t: u64, tt: f64,
    nm: NoiseModel,
    /// sum of the parties' secret keys, key-level NTT layout
    s_sum: Vec<u64>,
    sk_sum: SecretKey,
    key_q: BigU,
}

fn add_keys(w: &World, keys: &[&[u64]]) -> Vec<u64> {
    let n = w.n; let mut out = vec![0u64; n * w.key_moduli.len()];
    for k in keys { for (j, q) in w.key_moduli.iter().enumerate() { for i in 0..n { out[j * n + i] = rm::addmod(out[j * n + i], k[j * n + i], *q); } } }
    out
}

impl<'a> Sess<'a> {
    /// centered coefficients of k0 + k1 s - [component == special_comp] * factor * s^2 over the key modulus (all inputs NTT form)
    fn key_phase(&self, k0: &[u64], k1: &[u64], s: &[u64], sq_term: Option<usize>) -> Vec<BigI> {
        let w = self.w; let n = self.n; let km = &w.key_moduli; let kk = km.len();
        let cd = w.context.key_context_data().unwrap();
        let mut d = vec![0u64; n * kk];
        for (j, q) in km.iter().enumerate() {
            let factor = km[kk - 1] % *q;
            for i in 0..n {
                let x = j * n + i;
                let mut v = rm::addmod(k0[x], rm::mulmod(k1[x], s[x], *q), *q);
                if sq_term == Some(j) { v = rm::submod(v, rm::mulmod(factor, rm::mulmod(s[x], s[x], *q), *q), *q); }
                d[x] = v;
            }
        }
        for (j, tb) in cd.small_ntt_tables().iter().enumerate() { tb.inverse_ntt_negacyclic_harvey(&mut d[j * n..(j + 1) * n]); }
        (0..n).map(|i| centered(&crt_compose(&(0..kk).map(|j| d[j * n + i]).collect::<Vec<_>>(), km), &self.key_q)).collect()
    }
    fn add_err(&self, a: f64, e: f64) -> f64 { ladd(a, (self.tt * e).log2()) }
    fn b(&self) -> f64 { E_MAX * self.np as f64 }
}

fn max_abs(v: &[BigI]) -> f64 { v.iter().map(|x| x.to_f64().abs()).fold(0.0, f64::max) }

/// What a step encrypts and expects back.
struct Msg { plain: Plaintext, poly: Vec<u64>, ints: Vec<BigI>, slots: Vec<u64> }

fn session(c: &MpCase) -> Verdict {
    let w = match World::new(&c.ps) { Ok(w) => w, Err(e) => return fail_key("harness/params", e) };
    let np = c.parties as usize; let n = w.n; let scheme = w.ps.scheme; let t = w.t();
    let mut nm = NoiseModel::new(&w); nm.sn = np as f64;
    let ctx = w.context.clone();
    let mut parties: Vec<Participant> = match catch(|| (0..np).map(|i| Participant::new(np, i, ctx.clone(), tape_rng(&c.tape))).collect()) { Ok(p) => p, Err(p) => return fail(format!("Participant::new panicked: {p}")) };
    let s_sum = add_keys(&w, &parties.iter().map(|p| &p.secret_key().data()[..]).collect::<Vec<_>>());
    let mut sk_sum = parties[0].secret_key().clone();
    sk_sum.data_mut().copy_from_slice(&s_sum);
    let se = Sess { w: &w, n, np, scheme, t, tt: if scheme == Scheme::CKKS { 1.0 } else { t as f64 }, nm, s_sum, sk_sum: sk_sum.clone(), key_q: BigU::product(&w.key_moduli) };
    let dec_sum = Decryptor::new(ctx.clone(), sk_sum.clone());
    let enc_sum = Encryptor::new(ctx.clone()).set_secret_key(sk_sum.clone());
    let ev = &w.evaluator;
    let benc_holder = if scheme != Scheme::CKKS { Some(BatchEncoder::new(ctx.clone())) } else { None };
    let scale = 2f64.powi(20);
    let mut fails = Fails::new();
    let mut info = Info::new(false).label(format!("{:?}", scheme)).label(format!("n={np}")).label(format!("k={}", c.ps.moduli.len()));
    let mut collective_pk: Option<PublicKey> = None;
    let default_ntt = scheme != Scheme::BFV;
    let lkq = log2_big(&se.key_q);

    // message builders -------------------------------------------------------------------------
    let mk_msg = |coeffs: &[(u8, u64)], batched: bool| -> Result<Msg, String> {
        match scheme {
            Scheme::CKKS => {
                let f: Vec<f64> = coeffs.iter().take(n).enumerate().map(|(i, (_, r))| ((*r % 4096) as f64 - 2048.0) / 16.0 * if i % 3 == 0 { -1.0 } else { 1.0 }).collect();
                let p = catch(|| CKKSEncoder::new(ctx.clone()).encode_f64_polynomial_new(&f, None, scale))?;
                let ints = rns_ntt_to_centered(&w, 0, p.data());
                Ok(Msg { plain: p, poly: vec![], ints, slots: vec![] })
            }
            _ => {
                let benc = benc_holder.as_ref().unwrap();
                let vals: Vec<u64> = coeffs.iter().take(n).map(|(s, r)| plain_value(*s, *r, t)).collect();
                if batched { let p = catch(|| benc.encode_new(&vals))?; let poly = pad(&benc.decode_polynomial_new(&p), n); Ok(Msg { plain: p, poly, ints: vec![], slots: vals }) }
                else { Ok(Msg { plain: benc.encode_polynomial_new(&vals), poly: vals, ints: vec![], slots: vec![] }) }
            }
        }
    };
    // fresh ciphertext under the summed key (symmetric) or the collective public key, moved to a generated level / representation
    let encrypt_at = |m: &Msg, pk: Option<&PublicKey>, level: usize, alt: bool| -> Result<(Ciphertext, f64), String> {
        let (mut ct, mut lv) = match pk {
            Some(pk) => { let e = Encryptor::new(ctx.clone()).set_public_key(pk.clone()); (catch(|| e.encrypt_new(&m.plain))?, se.nm.fresh(true, w.context.first_context_data().unwrap().prev_context_data().is_some())) }
            None => (catch(|| enc_sum.encrypt_symmetric_new(&m.plain).expand_seed_if_any(&w.context))?, se.nm.fresh(false, false)),
        };
        for l in 0..level {
            ct = catch(|| ev.mod_switch_to_next_new(&ct))?;
            if scheme != Scheme::CKKS { lv = se.nm.modswitch(lv, 2, *w.levels[l].moduli.last().unwrap()); }
        }
        if alt { ct = catch(|| if ct.is_ntt_form() { ev.transform_from_ntt_new(&ct) } else { ev.transform_to_ntt_new(&ct) })?; }
        Ok((ct, lv))
    };
    // decrypt with an ordinary decryptor and compare with the message
    let check_plain = |fails: &mut Fails, key: &str, what: &str, dec: &Decryptor, ct: &Ciphertext, m: &Msg, lv: f64, snorm_ok: bool| -> bool {
        let level = match w.level_index(ct.parms_id()) { Some(l) => l, None => { fails.add(format!("{key}/level"), format!("{what}: result is at an unknown level")); return false; } };
        let lq = log2_big(&w.levels[level].q);
        let y = if ct.is_ntt_form() != default_ntt { match catch(|| if default_ntt { ev.transform_to_ntt_new(ct) } else { ev.transform_from_ntt_new(ct) }) { Ok(y) => y, Err(p) => { fails.add(format!("{key}/form"), format!("{what}: representation change of the result panicked: {p}")); return false; } } } else { ct.clone() };
        let _ = snorm_ok;
        match scheme {
            Scheme::CKKS => {
                let mm = max_abs(&m.ints);
                if !se.nm.assertable(ladd(lv, mm.max(1.0).log2()), lq) { return false; }
                let d = match catch(|| dec.decrypt_new(&y)) { Ok(d) => d, Err(p) => { fails.add(format!("{key}/decrypt"), format!("{what}: ordinary decryption of the result panicked: {p}")); return true; } };
                let got = rns_ntt_to_centered(&w, level, d.data());
                for j in 0..n { let diff = got[j].sub(&m.ints[j]).to_f64().abs(); if !(diff <= lv.exp2() + 2.0) { fails.add(format!("{key}/plaintext"), format!("{what}: coefficient {j} of the decrypted message differs from the encrypted one by {diff:.3e} (worst-case noise {:.3e})", lv.exp2())); break; } }
                true
            }
            _ => {
                if !se.nm.assertable(lv, lq) { return false; }
                let d = match catch(|| dec.decrypt_new(&y)) { Ok(d) => d, Err(p) => { fails.add(format!("{key}/decrypt"), format!("{what}: ordinary decryption of the result panicked: {p}")); return true; } };
                let got = pad(d.data(), n);
                if got != m.poly { let j = (0..n).find(|&j| got[j] != m.poly[j]).unwrap(); fails.add(format!("{key}/plaintext"), format!("{what}: decrypts to a different plaintext (coefficient {j}: {} instead of {}; noise bound 2^{lv:.1} of 2^{lq:.1})", got[j], m.poly[j])); }
                true
            }
        }
    };
    let same_ct = |a: &Ciphertext, b: &Ciphertext| a.data() == b.data() && a.parms_id() == b.parms_id() && a.size() == b.size() && a.is_ntt_form() == b.is_ntt_form() && a.scale().to_bits() == b.scale().to_bits() && a.correction_factor() == b.correction_factor();

    let mut asserted_any = false; let mut noncanon = false; let mut dropped_any = false;
    for (si, st) in c.steps.iter().enumerate() {
        let mut proto = st.proto;
        if scheme == Scheme::CKKS && matches!(proto, Proto::ToShares | Proto::FromShares | Proto::ShareRoundTrip) { proto = Proto::Decrypt; }
        if !w.batching && matches!(proto, Proto::ToShares | Proto::FromShares | Proto::ShareRoundTrip) { proto = Proto::KeySwitch; }
        let key = format!("C18/{:?}/{:?}", proto, scheme);
        let what = format!("step {si} {:?} ({np} parties, N={n})", proto);
        let pairs = all_pairs(np);
        let level = pick_idx(st.level_sel, w.levels.len());
        let drop1 = st.drop.and_then(|(r, d)| if r % 2 == 0 || !matches!(proto, Proto::RlkGen | Proto::ShareRoundTrip) { Some(d) } else { None });
        let drop2 = st.drop.and_then(|(r, d)| if r % 2 == 1 && matches!(proto, Proto::RlkGen | Proto::ShareRoundTrip) { Some(d) } else { None });
        info = info.label(format!("{:?}", proto));
        match proto {
            Proto::PkGen => {
                let mut protos: Vec<_> = match catch(|| parties.iter_mut().map(|p| p.generate_public_key()).collect::<Vec<_>>()) { Ok(p) => p, Err(p) => { fails.add(format!("{key}/start"), format!("{what}: generate_public_key panicked: {p}")); break; } };
                let d = match run_round(&mut protos, pairs.clone(), &st.order, drop1, &|p, b| p.send(b), &|p, s, m| p.receive(s, m)) { Ok(d) => d, Err(e) => { fails.add(format!("{key}/round"), format!("{what}: {e}")); break; } };
                noncanon |= !is_canonical(&d, &pairs); dropped_any |= d.dropped.is_some();
                let pks = finish_all(&key, &what, protos, d.dropped, &|p| p.finish(), &mut fails);
                let got: Vec<&PublicKey> = pks.iter().flatten().collect();
                if got.is_empty() { continue; }
                for (i, pk) in got.iter().enumerate().skip(1) { if pk.data() != got[0].data() || pk.parms_id() != got[0].parms_id() { fails.add(format!("{key}/agreement"), format!("{what}: parties derive different collective public keys (holder {i} vs holder 0; delivery order {:?})", d.order)); break; } }
                let pk = got[0].clone();
                if pk.contains_seed() { fails.add(format!("{key}/seed"), format!("{what}: collective public key still carries a seed")); continue; }
                // structure: p0 + p1 s = -(sum e_i) [* t]
                let bound = se.tt * se.b();
                if bound.log2() + 2.0 < lkq - 1.0 {
                    let ph = se.key_phase(pk.as_ciphertext().poly(0), pk.as_ciphertext().poly(1), &se.s_sum, None);
                    let m = max_abs(&ph);
                    if !(m <= bound) { fails.add(format!("{key}/key-relation"), format!("{what}: p0 + p1*(s_1+..+s_n) has norm {m:.3e}, more than the {np} error terms allow ({bound:.3e}): the collective key does not belong to the sum of the secret keys")); }
                    else if scheme == Scheme::BGV && ph.iter().any(|x| x.rem_u64(t) != 0) { fails.add(format!("{key}/key-relation"), format!("{what}: BGV collective key error is not a multiple of t")); }
                    asserted_any = true;
                }
                // function: encrypt under it, decrypt under the summed key
                if let Ok(m) = mk_msg(&c.coeffs, false) {
                    match encrypt_at(&m, Some(&pk), 0, false) {
                        Ok((ct, lv)) => { asserted_any |= check_plain(&mut fails, &key, &format!("{what}: encrypt under the collective key"), &dec_sum, &ct, &m, lv, true); }
                        Err(p) => fails.add(format!("{key}/encrypt"), format!("{what}: encryption under the collective public key panicked: {p}")),
                    }
                }
                collective_pk = Some(pk);
            }
            Proto::SkReveal => {
                let mut protos: Vec<_> = parties.iter().map(|p| p.reveal_secret_key()).collect();
                let d = match run_round(&mut protos, pairs.clone(), &st.order, drop1, &|p, b| p.send(b), &|p, s, m| p.receive(s, m)) { Ok(d) => d, Err(e) => { fails.add(format!("{key}/round"), format!("{what}: {e}")); break; } };
                noncanon |= !is_canonical(&d, &pairs); dropped_any |= d.dropped.is_some();
                let sks = finish_all(&key, &what, protos, d.dropped, &|p| p.finish(), &mut fails);
                for (i, sk) in sks.iter().enumerate() { if let Some(sk) = sk { if sk.data() != &se.s_sum[..] { fails.add(format!("{key}/sum"), format!("{what}: party {i} reconstructs a secret key different from s_1+..+s_n")); break; } asserted_any = true; } }
            }
            Proto::RlkGen => {
                let kk = w.key_moduli.len();
                let mut protos: Vec<_> = match catch(|| parties.iter_mut().map(|p| p.generate_relin_keys()).collect::<Vec<_>>()) { Ok(p) => p, Err(p) => { fails.add(format!("{key}/start"), format!("{what}: generate_relin_keys panicked: {p}")); break; } };
                // event-driven schedule: a party runs step2 as soon as its round-1 inbox is complete; a round-2 message can be
                // delivered once sender and receiver have both run step2
                // late senders (selector bits 4 and 5 of the party's order entry): the round-1 / round-2 message is produced only when its
                // first delivery is due, after the party may have received other messages of that round
                let late1 = |s: usize| (st.order[s % st.order.len()] >> 4) & 1 == 1;
                let late2 = |s: usize| (st.order[s % st.order.len()] >> 5) & 1 == 1;
                let mut msgs1: Vec<Option<Vec<u8>>> = vec![]; let mut broke = false;
                for (i, p) in protos.iter().enumerate() { if late1(i) { msgs1.push(None); continue; } let mut b = vec![]; match catch(|| p.send_step1(&mut b)) { Ok(Ok(())) => msgs1.push(Some(b)), other => { fails.add(format!("{key}/round"), format!("{what}: party {i} send_step1 failed: {:?}", other.map(|r| r.map_err(|e| e.to_string())))); broke = true; break; } } }
                if broke { break; }
                let drop_r1 = drop1.map(|d| pairs[pick_idx(d, pairs.len())]);
                let drop_r2 = drop2.map(|d| pairs[pick_idx(d, pairs.len())]);
                dropped_any |= drop_r1.is_some() || drop_r2.is_some();
                let mut pending: Vec<(u8, usize, usize)> = pairs.iter().filter(|p| Some(**p) != drop_r1).map(|&(r, s)| (1u8, r, s)).collect();
                pending.extend(pairs.iter().filter(|p| Some(**p) != drop_r2).map(|&(r, s)| (2u8, r, s)));
                let mut got1 = vec![0usize; np]; let mut done2 = vec![false; np]; let mut msgs2: Vec<Option<Vec<u8>>> = vec![None; np];
                let mut trace: Vec<(u8, usize, usize)> = vec![]; let mut k = 0usize;
                loop {
                    let enabled: Vec<usize> = (0..pending.len()).filter(|&i| { let (rd, r, s) = pending[i]; rd == 1 || (done2[r] && done2[s]) }).collect();
                    if enabled.is_empty() { break; }
                    let e = enabled[pick_idx(st.order[k % st.order.len()], enabled.len())]; k += 1;
                    let (rd, r, s) = pending.remove(e);
                    if rd == 1 && msgs1[s].is_none() { let mut b = vec![]; match catch(|| protos[s].send_step1(&mut b)) { Ok(Ok(())) => msgs1[s] = Some(b), _ => { fails.add(format!("{key}/round"), format!("{what}: party {s} send_step1 (after receiving) failed")); broke = true; break; } } }
                    if rd == 2 && msgs2[s].is_none() { let mut b = vec![]; match catch(|| protos[s].send_step2(&mut b)) { Ok(Ok(())) => msgs2[s] = Some(b), _ => { fails.add(format!("{key}/round"), format!("{what}: party {s} send_step2 (after receiving) failed")); broke = true; break; } } }
                    let res = if rd == 1 { let m = msgs1[s].clone().unwrap(); catch(|| protos[r].receive_step1(s, &mut m.as_slice())) } else { let m = msgs2[s].clone().unwrap(); catch(|| protos[r].receive_step2(s, &mut m.as_slice())) };
                    match res { Ok(Ok(())) => {}, other => { fails.add(format!("{key}/round"), format!("{what}: party {r} receiving the round-{rd} message of party {s} failed: {:?}", other.map(|r| r.map_err(|e| e.to_string())))); broke = true; break; } }
                    trace.push((rd, r, s));
                    if rd == 1 { got1[r] += 1; if got1[r] == np - 1 {
                        // a late sender has sent its round-1 message at the latest before it moves on to step 2
                        if msgs1[r].is_none() { let mut b = vec![]; match catch(|| protos[r].send_step1(&mut b)) { Ok(Ok(())) => msgs1[r] = Some(b), _ => { fails.add(format!("{key}/round"), format!("{what}: party {r} send_step1 (after receiving) failed")); broke = true; break; } } }
                        if let Err(p) = catch(|| protos[r].step2()) { fails.add(format!("{key}/step2"), format!("{what}: party {r} has every round-1 message but step2() panicked: {p}")); broke = true; break; }
                        if !late2(r) { let mut b = vec![]; match catch(|| protos[r].send_step2(&mut b)) { Ok(Ok(())) => msgs2[r] = Some(b), _ => { fails.add(format!("{key}/round"), format!("{what}: party {r} send_step2 failed")); broke = true; break; } } }
                        done2[r] = true;
                    } }
                }
                if broke { break; }
                let interleaved = trace.iter().position(|x| x.0 == 2).map_or(false, |p| trace[p..].iter().any(|x| x.0 == 1));
                noncanon |= interleaved || trace.iter().map(|x| (x.1, x.2)).take(pairs.len()).collect::<Vec<_>>() != pairs;
                info = info.label_if(interleaved, "rlk rounds interleaved across parties");
                // parties that could not complete round 1 must refuse step2; everybody who then lacks a round-2 message must refuse finish
                let mut outs: Vec<Option<RelinKeys>> = vec![];
                for (i, mut p) in protos.into_iter().enumerate() {
                    if !done2[i] {
                        if catch(|| p.step2()).is_ok() { fails.add(format!("{key}/incomplete-finish"), format!("{what}: party {i} misses a round-1 message but step2() went through")); }
                        outs.push(None); continue;
                    }
                    let complete = (0..np).all(|s| s == i || (done2[s] && drop_r2 != Some((i, s))));
                    let res = catch(|| p.finish());
                    if !complete { if res.is_ok() { fails.add(format!("{key}/incomplete-finish"), format!("{what}: party {i} misses a round-2 message but finish() returned relinearization keys")); } outs.push(None); }
                    else { match res { Ok(r) => outs.push(Some(r)), Err(p) => { fails.add(format!("{key}/finish"), format!("{what}: party {i} had every message but finish() panicked: {p}")); outs.push(None); } } }
                }
                let got: Vec<&RelinKeys> = outs.iter().flatten().collect();
                if got.is_empty() { continue; }
                let comps = |r: &RelinKeys| -> Vec<(Vec<u64>, Vec<u64>)> { r.as_kswitch_keys().data()[0].iter().map(|pk| (pk.as_ciphertext().poly(0).to_vec(), pk.as_ciphertext().poly(1).to_vec())).collect() };
                let c0 = match catch(|| comps(got[0])) { Ok(c) => c, Err(p) => { fails.add(format!("{key}/shape"), format!("{what}: relinearization keys malformed: {p}")); continue; } };
                for (i, r) in got.iter().enumerate().skip(1) { if catch(|| comps(r)).ok().as_ref() != Some(&c0) { fails.add(format!("{key}/agreement"), format!("{what}: parties derive different relinearization keys (holder {i} vs holder 0; schedule {:?})", trace)); break; } }
                if c0.len() != kk - 1 { fails.add(format!("{key}/shape"), format!("{what}: {} key components for {} decomposition moduli", c0.len(), kk - 1)); continue; }
                // structure: k0 + k1 s - P s^2 (component j only) = s e0 + e2 + u e1 + e3
                let e_rlk = 2.0 * se.b() * (n as f64 * np as f64 + 1.0);
                let bound = se.tt * e_rlk;
                if bound.log2() + 2.0 < lkq - 1.0 {
                    for (j, (k0, k1)) in c0.iter().enumerate() {
                        let ph = se.key_phase(k0, k1, &se.s_sum, Some(j));
                        let m = max_abs(&ph);
                        if !(m <= bound) { fails.add(format!("{key}/key-relation"), format!("{what}: component {j}: k0 + k1*s - P*s^2 has norm {m:.3e} > {bound:.3e}: not a key-switching key from s^2 to s for s = s_1+..+s_n")); break; }
                        if scheme == Scheme::BGV && ph.iter().any(|x| x.rem_u64(t) != 0) { fails.add(format!("{key}/key-relation"), format!("{what}: component {j}: BGV key error is not a multiple of t")); break; }
                    }
                    asserted_any = true;
                }
                // function: multiply + relinearize under the summed key
                // (CKKS: the product scale 2^40 has to fit the first level, otherwise multiply refuses by contract)
                if scheme == Scheme::CKKS && 42.0 >= log2_big(&w.levels[0].q) { continue; }
                if let (Ok(m1), Ok(m2)) = (mk_msg(&c.coeffs, false), mk_msg(&c.coeffs2, false)) {
                    let r = (|| -> Result<(), String> {
                        let (a, la) = encrypt_at(&m1, collective_pk.as_ref().filter(|_| st.use_pk), 0, false)?;
                        let (b, lb) = encrypt_at(&m2, None, 0, false)?;
                        let prod = catch(|| ev.multiply_new(&a, &b))?;
                        let rel = catch(|| ev.relinearize_new(&prod, got[0])).map_err(|p| format!("relinearize with the collective keys panicked: {p}"))?;
                        if rel.size() != 2 { return Err(format!("relinearized size {}", rel.size())); }
                        let k = w.levels[0].moduli.len(); let lq = log2_big(&w.levels[0].q);
                        let mut nmr = NoiseModel::new(&w); nmr.sn = np as f64; nmr.ksk_err = e_rlk;
                        let (m, lv) = match scheme {
                            Scheme::CKKS => {
                                let x: Vec<i128> = m1.ints.iter().map(|v| v.to_f64() as i128).collect(); let y: Vec<i128> = m2.ints.iter().map(|v| v.to_f64() as i128).collect();
                                let mut z = vec![0i128; n];
                                for i in 0..n { for j in 0..n { let p = x[i] * y[j]; if i + j < n { z[i + j] += p; } else { z[i + j - n] -= p; } } }
                                let (mx, my) = (max_abs(&m1.ints), max_abs(&m2.ints));
                                let lv = ((n as f64) * (mx * lb.exp2() + my * la.exp2() + la.exp2() * lb.exp2())).log2();
                                (Msg { plain: Plaintext::new(), poly: vec![], ints: z.into_iter().map(BigI::from_i128).collect(), slots: vec![] }, nmr.keyswitch(lv, k))
                            }
                            _ => (Msg { plain: Plaintext::new(), poly: pmul(&m1.poly, &m2.poly, t), ints: vec![], slots: vec![] }, nmr.keyswitch(nmr.mul(la, 2, lb, 2, k, lq), k)),
                        };
                        if check_plain(&mut fails, &key, &format!("{what}: multiply, relinearize with the collective keys"), &dec_sum, &rel, &m, lv, true) { asserted_any = true; }
                        Ok(())
                    })();
                    if let Err(e) = r { fails.add(format!("{key}/use"), format!("{what}: using the collective relinearization keys failed: {e}")); }
                }
            }
            Proto::Decrypt | Proto::KeySwitch | Proto::PubKeySwitch => {
                let m = match mk_msg(if si % 2 == 0 { &c.coeffs } else { &c.coeffs2 }, false) { Ok(m) => m, Err(p) => { fails.add("harness/encode", p); break; } };
                let alt = st.alt_form && proto != Proto::Decrypt;
                let (ct, lv) = match encrypt_at(&m, collective_pk.as_ref().filter(|_| st.use_pk), level, alt) { Ok(x) => x, Err(p) => { fails.add(format!("{key}/input"), format!("{what}: preparing the input ciphertext panicked: {p}")); break; } };
                info = info.label_if(level > 0, "input below the first level").label_if(alt, "non-default representation");
                match proto {
                    Proto::Decrypt => {
                        let mut protos: Vec<_> = match catch(|| parties.iter().map(|p| p.decrypt(&ct)).collect::<Vec<_>>()) { Ok(p) => p, Err(p) => { fails.add(format!("{key}/start"), format!("{what}: decrypt() panicked on a valid ciphertext: {p}")); continue; } };
                        let d = match run_round(&mut protos, pairs.clone(), &st.order, drop1, &|p, b| p.send(b), &|p, s, m| p.receive(s, m)) { Ok(d) => d, Err(e) => { fails.add(format!("{key}/round"), format!("{what}: {e}")); continue; } };
                        noncanon |= !is_canonical(&d, &pairs); dropped_any |= d.dropped.is_some();
                        let outs = finish_all(&key, &what, protos, d.dropped, &|p| p.finish(), &mut fails);
                        let got: Vec<&Plaintext> = outs.iter().flatten().collect();
                        if got.is_empty() { continue; }
                        for (i, p) in got.iter().enumerate().skip(1) { if p.data() != got[0].data() { fails.add(format!("{key}/agreement"), format!("{what}: parties decrypt to different plaintexts (holder {i} vs holder 0)")); break; } }
                        let lv2 = se.add_err(lv, se.b());
                        let lq = log2_big(&w.levels[level].q);
                        match scheme {
                            Scheme::CKKS => {
                                if se.nm.assertable(ladd(lv2, max_abs(&m.ints).max(1.0).log2()), lq) {
                                    asserted_any = true;
                                    if got[0].parms_id() != ct.parms_id() || got[0].scale().to_bits() != ct.scale().to_bits() { fails.add(format!("{key}/meta"), format!("{what}: collective CKKS plaintext has wrong level or scale")); }
                                    else { let r = rns_ntt_to_centered(&w, level, got[0].data());
                                        for j in 0..n { let diff = r[j].sub(&m.ints[j]).to_f64().abs(); if !(diff <= lv2.exp2() + 2.0) { fails.add(format!("{key}/plaintext"), format!("{what}: collective decryption differs from the message at coefficient {j} by {diff:.3e} (worst-case noise {:.3e})", lv2.exp2())); break; } } }
                                }
                            }
                            _ => if se.nm.assertable(lv2, lq) {
                                asserted_any = true;
                                let r = pad(got[0].data(), n);
                                if r != m.poly { let j = (0..n).find(|&j| r[j] != m.poly[j]).unwrap(); fails.add(format!("{key}/plaintext"), format!("{what}: collective decryption of a level-{level} ciphertext gives coefficient {j} = {} instead of {} (t={t}, noise bound 2^{lv2:.1} of 2^{lq:.1})", r[j], m.poly[j])); }
                            }
                        }
                    }
                    Proto::KeySwitch => {
                        let new_gens: Vec<KeyGenerator> = (0..np).map(|_| KeyGenerator::new(ctx.clone())).collect();
                        let new_sks: Vec<SecretKey> = new_gens.iter().map(|g| g.secret_key().clone()).collect();
                        let s2 = add_keys(&w, &new_sks.iter().map(|s| &s.data()[..]).collect::<Vec<_>>());
                        let mut sk2 = new_sks[0].clone(); sk2.data_mut().copy_from_slice(&s2);
                        let dec2 = Decryptor::new(ctx.clone(), sk2);
                        let mut protos: Vec<_> = match catch(|| parties.iter().zip(new_sks.iter()).map(|(p, s)| p.key_switch(&ct, s)).collect::<Vec<_>>()) { Ok(p) => p, Err(p) => { fails.add(format!("{key}/start"), format!("{what}: key_switch() panicked on a valid ciphertext: {p}")); continue; } };
                        let d = match run_round(&mut protos, pairs.clone(), &st.order, drop1, &|p, b| p.send(b), &|p, s, m| p.receive(s, m)) { Ok(d) => d, Err(e) => { fails.add(format!("{key}/round"), format!("{what}: {e}")); continue; } };
                        noncanon |= !is_canonical(&d, &pairs); dropped_any |= d.dropped.is_some();
                        let outs = finish_all(&key, &what, protos, d.dropped, &|p| p.finish(), &mut fails);
                        let got: Vec<&Ciphertext> = outs.iter().flatten().collect();
                        if got.is_empty() { continue; }
                        for (i, x) in got.iter().enumerate().skip(1) { if !same_ct(x, got[0]) { fails.add(format!("{key}/agreement"), format!("{what}: parties obtain different switched ciphertexts (holder {i} vs holder 0)")); break; } }
                        asserted_any |= check_plain(&mut fails, &key, &format!("{what}: level {level}, switched to s'_1+..+s'_n"), &dec2, got[0], &m, se.add_err(lv, se.b()), true);
                    }
                    _ => {
                        let kg = KeyGenerator::new(ctx.clone());
                        let pk2 = kg.create_public_key(false);
                        let dec2 = Decryptor::new(ctx.clone(), kg.secret_key().clone());
                        let mut protos: Vec<_> = match catch(|| parties.iter().map(|p| p.public_key_switch(&ct, &pk2)).collect::<Vec<_>>()) { Ok(p) => p, Err(p) => { fails.add(format!("{key}/start"), format!("{what}: public_key_switch() panicked on a valid ciphertext: {p}")); continue; } };
                        let d = match run_round(&mut protos, pairs.clone(), &st.order, drop1, &|p, b| p.send(b), &|p, s, m| p.receive(s, m)) { Ok(d) => d, Err(e) => { fails.add(format!("{key}/round"), format!("{what}: {e}")); continue; } };
                        noncanon |= !is_canonical(&d, &pairs); dropped_any |= d.dropped.is_some();
                        let outs = finish_all(&key, &what, protos, d.dropped, &|p| p.finish(), &mut fails);
                        let got: Vec<&Ciphertext> = outs.iter().flatten().collect();
                        if got.is_empty() { continue; }
                        for (i, x) in got.iter().enumerate().skip(1) { if !same_ct(x, got[0]) { fails.add(format!("{key}/agreement"), format!("{what}: parties obtain different re-encrypted ciphertexts (holder {i} vs holder 0)")); break; } }
                        asserted_any |= check_plain(&mut fails, &key, &format!("{what}: level {level}, re-encrypted to a fresh public key"), &dec2, got[0], &m, se.add_err(lv, se.b() * (2.0 * n as f64 + 1.0)), true);
                    }
                }
            }
            Proto::ToShares | Proto::FromShares | Proto::ShareRoundTrip => {
                let benc = benc_holder.as_ref().unwrap();
                let sampler = BFVShareSampler::new(ctx.clone());
                let senc = BFVSimdShareEncoder::new(ctx.clone());
                let lq = log2_big(&w.levels[0].q);
                let mut shares: Option<Vec<Vec<u64>>> = None;
                let mut expect: Vec<u64> = vec![];
                if proto != Proto::FromShares {
                    let m = match mk_msg(&c.coeffs, true) { Ok(m) => m, Err(p) => { fails.add("harness/encode", p); break; } };
                    let (ct, lv) = match encrypt_at(&m, collective_pk.as_ref().filter(|_| st.use_pk), 0, false) { Ok(x) => x, Err(p) => { fails.add(format!("{key}/input"), format!("{what}: preparing the input ciphertext panicked: {p}")); break; } };
                    let mut protos: Vec<_> = match catch(|| parties.iter().map(|p| p.cipher_to_shares(ct.clone(), &sampler, &senc)).collect::<Vec<_>>()) { Ok(p) => p, Err(p) => { fails.add(format!("{key}/start"), format!("{what}: cipher_to_shares() panicked on a valid ciphertext: {p}")); continue; } };
                    let prs: Vec<(usize, usize)> = (1..np).map(|s| (0, s)).collect();
                    let d = match run_round(&mut protos, prs.clone(), &st.order, drop1, &|p, b| p.send(b), &|p, s, m| p.receive(s, m)) { Ok(d) => d, Err(e) => { fails.add(format!("{key}/round"), format!("{what}: {e}")); continue; } };
                    noncanon |= !is_canonical(&d, &prs); dropped_any |= d.dropped.is_some();
                    let outs = finish_all(&key, &what, protos, d.dropped, &|p| p.finish(&senc), &mut fails);
                    if outs.iter().any(|o| o.is_none()) { continue; }
                    let sh: Vec<Vec<u64>> = outs.into_iter().flatten().collect();
                    if sh.iter().any(|s| s.len() != n || s.iter().any(|x| *x >= t)) { fails.add(format!("{key}/share-range"), format!("{what}: a share has the wrong length or an entry >= t")); continue; }
                    let lv2 = ladd(se.add_err(lv, se.b()), (se.tt * np as f64).log2());
                    if se.nm.assertable(lv2, lq) {
                        asserted_any = true;
                        for j in 0..n { let sum = sh.iter().fold(0u64, |a, s| rm::addmod(a, s[j], t)); if sum != m.slots[j] { fails.add(format!("{key}/share-sum"), format!("{what}: slot {j}: the {np} shares add up to {sum} but the ciphertext held {} (t={t})", m.slots[j])); break; } }
                    }
                    expect = m.slots.clone();
                    shares = Some(sh);
                }
                if proto != Proto::ToShares {
                    let sh: Vec<Vec<u64>> = match shares { Some(s) => s, None => { let s: Vec<Vec<u64>> = (0..np).map(|i| (0..n).map(|j| c.shares[i * n + j] % t).collect()).collect();
                        expect = (0..n).map(|j| s.iter().fold(0u64, |a, x| rm::addmod(a, x[j], t))).collect(); s } };
                    let mut protos: Vec<_> = match catch(|| parties.iter_mut().zip(sh.iter()).map(|(p, s)| p.shares_to_cipher(s, &senc)).collect::<Vec<_>>()) { Ok(p) => p, Err(p) => { fails.add(format!("{key}/start"), format!("{what}: shares_to_cipher() panicked: {p}")); continue; } };
                    let prs: Vec<(usize, usize)> = (1..np).map(|s| (0, s)).collect();
                    let d = match run_round(&mut protos, prs.clone(), &st.order, if proto == Proto::ShareRoundTrip { drop2 } else { drop1 }, &|p, b| p.send(b), &|p, s, m| p.receive(s, m)) { Ok(d) => d, Err(e) => { fails.add(format!("{key}/round"), format!("{what}: {e}")); continue; } };
                    noncanon |= !is_canonical(&d, &prs); dropped_any |= d.dropped.is_some();
                    // party 0 aggregates (documented use); the other parties' protocol objects are dropped unfinished
                    let p0 = protos.into_iter().next().unwrap();
                    let outs = finish_all(&key, &what, vec![p0], d.dropped, &|p| p.finish(), &mut fails);
                    let ct = match &outs[0] { Some(c) => c.clone(), None => continue };
                    let lv = (se.tt * (se.b() + np as f64 + 1.0)).log2();
                    if se.nm.assertable(lv, lq) {
                        match catch(|| { let y = if ct.is_ntt_form() != default_ntt { if default_ntt { ev.transform_to_ntt_new(&ct) } else { ev.transform_from_ntt_new(&ct) } } else { ct.clone() }; benc.decode_new(&dec_sum.decrypt_new(&y)) }) {
                            Ok(v) => { asserted_any = true; let v = pad(&v, n); if v != expect { let j = (0..n).find(|&j| v[j] != expect[j]).unwrap(); fails.add(format!("{key}/shares-to-cipher"), format!("{what}: the ciphertext built from the shares decrypts (under s_1+..+s_n) to {} in slot {j}, the shares add up to {} (t={t})", v[j], expect[j])); } }
                            Err(p) => fails.add(format!("{key}/shares-to-cipher"), format!("{what}: the ciphertext built from the shares cannot be decrypted by an ordinary decryptor: {p}")),
                        }
                    }
                }
            }
        }
    }
    info.nontrivial = asserted_any && (np >= 3 || noncanon || dropped_any);
    info = info.label_if(noncanon, "non-canonical delivery order").label_if(dropped_any, "withheld message").label_if(!asserted_any, "nothing assertable");
    fails.verdict(info)
}

pub fn def() -> PropertyDef {
    PropertyDef {
        id: "C18",
        level: "exploration",
        rule: "sessions of 1..4 protocol runs (public key, relinearization keys [two rounds, step2 interleaved per party], secret-key reveal, collective decryption, key switch to a fresh collective key, public-key switch, cipher->shares, shares->cipher, shares round trip) among n = 2..6 parties over BFV/BGV/CKKS contexts with 2..4 primes, N = 4..64 (thorough 512), inputs at generated levels and representations, encrypted under the summed key or the collective public key; the messages of every round delivered in a generated order, optionally one message withheld; per party and round (both rounds of the relinearization-key protocol included) a generated bit makes it a late sender, which produces its message only when its first delivery is due (and before it moves on to the next step), after it may have received others'. exhaustive: every delivery order for n = 2 and 3 (quick: every 7th for n = 3) and every single withheld message, per protocol and scheme at N = 8. Oracle: outputs equal across parties; collective keys satisfy k0 + k1*s [- P*s^2] = small error for s = sum of the secret keys (added up by the harness) and work under an ordinary decryptor for s; decrypted plaintexts equal the encrypted ones whenever the worst-case noise model (secret norm n) stays below the modulus; shares add up to the slots mod t; a party with an incomplete inbox refuses, everybody else finishes. non-trivial: something was asserted and (n >= 3 or the delivery order is not the canonical one or a message was withheld).",
        assumptions: vec!["noise model DESIGN.md §4 with ||s|| <= n and multiparty key-switching-key error 2 n B (N n + 1)", "shares->cipher is observed at party 0, the aggregating party of the documented usage"],
        subs: vec![Sub::enumerate("all_orders_small_n", exhaustive, session), Sub::prop("random_sessions", 200_000, 1_000_000, 0.4, mp_case, session)],
    }
}
