//! C10 — RNS base tools meet their integer specifications for all inputs.
//! Oracle: big-integer arithmetic (BigU/BigI) on the integers the residue vectors represent.
use crate::bigint::{centered, crt_compose, BigI, BigU};
use crate::gen::*;
use crate::refmath as rm;
use crate::runner::*;
use heathcliff::util::{NTTTables, RNSBase, RNSTool};
use heathcliff::Modulus;
use proptest::prelude::*;
use serde::{Deserialize, Serialize};

#[derive(Clone, Debug, Serialize, Deserialize)]
pub struct RnsCase {
    pub logn: u32,
    /// true: moduli are primes = 1 mod 2N (as in every context; NTT variants are exercised)
    pub ntt_friendly: bool,
    pub moduli: Vec<u64>,
    /// plain modulus (0 = CKKS-style tool without t)
    pub t: u64,
    /// raw material for the N integers of each routine: (selector, limbs)
    pub raw: Vec<(u8, Vec<u64>)>,
}

fn odd_coprime_moduli(bits: &[u32], raws: &[u64], allow_even: bool) -> Vec<u64> {
    let mut out: Vec<u64> = vec![];
    for (i, &b) in bits.iter().enumerate() {
        let lo = 1u64 << (b - 1); let hi = (1u64 << b) - 1;
        let mut v = lo + raws[i] % (hi - lo + 1);
        if !(allow_even && i == 0) { v |= 1; }
        if v < 2 { v = 2; }
        let mut guard = 0;
        while out.iter().any(|&o| rm::gcd(o, v) != 1) || v < 2 {
            v += if allow_even && i == 0 { 1 } else { 2 };
            if v > hi { v = lo | 1; }
            guard += 1;
            if guard > 10_000 { v = (3u64..).step_by(2).find(|p| out.iter().all(|&o| rm::gcd(o, *p) == 1)).unwrap(); break; } // no coprime value of that size is left: the smallest odd coprime value
        }
        out.push(v);
    }
    out
}

fn pick_t(sel: u8, raw: u64, moduli: &[u64]) -> u64 {
    if sel % 8 == 0 { return 0; }
    let bits = 2 + (raw % 59) as u32; // 2..60
    let lo = 1u64 << (bits - 1); let hi = (1u64 << bits) - 1;
    let mut t = match sel % 8 { 1 => lo, 2 => hi, 3 => 2, 4 => 3, _ => lo + (raw >> 8) % (hi - lo + 1) };
    let mut guard = 0;
    while t < 2 || moduli.iter().any(|&q| rm::gcd(q, t) != 1) { t += 1; guard += 1; if guard > 1000 { t = 2; break; } }
    if t >> 60 != 0 { t = 2; }
    // every validated context has t < Q
    let q = BigU::product(moduli);
    if BigU::from_u64(t) >= q {
        t = 2;
        if let Some(qv) = q.to_u64() { let mut c = 2 + (raw >> 16) % (qv - 2).max(1); while c < qv && moduli.iter().any(|&m| rm::gcd(m, c) != 1) { c += 1; } if c < qv { t = c; } }
    }
    t
}

fn rns_from_raw(logn: u32, ntt: bool, specs: Vec<(u32, u8, u64)>, tsel: u8, traw: u64, raw: Vec<(u8, Vec<u64>)>) -> RnsCase {
    let moduli = if ntt {
        let bits: Vec<u32> = specs.iter().map(|s| s.0.max(logn + 2)).collect();
        let sels: Vec<u8> = specs.iter().map(|s| s.1).collect();
        ntt_primes_distinct(logn, &bits, &sels)
    } else {
        let bits: Vec<u32> = specs.iter().map(|s| s.0).collect();
        let raws: Vec<u64> = specs.iter().map(|s| s.2).collect();
        odd_coprime_moduli(&bits, &raws, false)
    };
    let t = pick_t(tsel, traw, &moduli);
    RnsCase { logn, ntt_friendly: ntt, moduli, t, raw }
}

fn rns_case(tier: Tier) -> BoxedStrategy<RnsCase> {
    let maxk = 8usize;
    let _ = tier;
    (1u32..=3, any::<bool>(), proptest::collection::vec((2u32..=60, any::<u8>(), any::<u64>()), 1..=maxk), any::<u8>(), any::<u64>(),
     proptest::collection::vec((any::<u8>(), proptest::collection::vec(limb(), 10)), 8))
        .prop_map(|(logn, ntt, specs, tsel, traw, raw)| rns_from_raw(logn, ntt, specs, tsel, traw, raw)).boxed()
}
/// fuzz decoder (engine E3): the same primitive choices drawn from fuzzer bytes, mapped by `rns_from_raw`
fn rns_decode(src: &mut crate::fuzz::Src) -> Option<RnsCase> {
    let logn = src.incl(1, 3) as u32; let ntt = src.bool();
    let k = src.incl(1, 8) as usize;
    let specs = (0..k).map(|_| (src.incl(2, 60) as u32, src.u8(), src.u64())).collect();
    let tsel = src.u8(); let traw = src.u64();
    let raw = (0..8).map(|_| (src.u8(), (0..10).map(|_| limb_decode(src)).collect())).collect();
    Some(rns_from_raw(logn, ntt, specs, tsel, traw, raw))
}

/// map raw material to an integer in [0, bound)
fn int_below(sel: u8, limbs: &[u64], bound: &BigU, moduli: &[u64]) -> BigU {
    if bound.is_zero() { return BigU::zero(); }
    let r = BigU::from_limbs(limbs).rem(bound);
    let one = BigU::one();
    let v = match sel % 12 {
        0 => BigU::zero(),
        1 => one.clone(),
        2 => bound.sub(&one),
        3 => bound.shr(1),
        4 => bound.shr(1).add(&one),
        5 => { let q = moduli[(limbs[0] % moduli.len() as u64) as usize]; BigU::from_u64(q).mul_u64(limbs[1] % 7 + 1).add(&one) }
        6 => { let q = moduli[(limbs[0] % moduli.len() as u64) as usize]; let m = BigU::from_u64(q).mul_u64(limbs[1] % 7 + 1); if m.is_zero() { m } else { m.sub(&one) } }
        7 => BigU::from_u64(limbs[0] >> (limbs[1] % 64)),
        _ => r,
    };
    v.rem(bound)
}

fn residues(x: &BigU, moduli: &[u64]) -> Vec<u64> { moduli.iter().map(|&q| x.rem_u64(q)).collect() }
fn residues_i(x: &BigI, moduli: &[u64]) -> Vec<u64> { moduli.iter().map(|&q| x.rem_u64(q)).collect() }

/// lay out per-coefficient residue vectors as [modulus][coefficient]
fn layout(vals: &[Vec<u64>], k: usize) -> Vec<u64> {
    let n = vals.len();
    let mut out = vec![0u64; n * k];
    for (j, v) in vals.iter().enumerate() { for i in 0..k { out[i * n + j] = v[i]; } }
    out
}
/// an output buffer that was used before: every routine has to overwrite all of it
fn dirty(len: usize) -> Vec<u64> { (0..len as u64).map(|i| (i + 1).wrapping_mul(0x9E37_79B9_7F4A_7C15) | 1).collect() }
fn column(data: &[u64], n: usize, k: usize, j: usize) -> Vec<u64> { (0..k).map(|i| data[i * n + j]).collect() }

pub fn rns_oracle(c: &RnsCase) -> Verdict {
    let mut f = Fails::new();
    let n = 1usize << c.logn; let k = c.moduli.len();
    if k == 0 || c.raw.len() < 8 { return fail("malformed case"); }
    let mods: Vec<Modulus> = c.moduli.iter().map(|q| Modulus::new(*q)).collect();
    let qprod = BigU::product(&c.moduli);
    let ctx = format!("moduli={:?} t={} N={n}", c.moduli, c.t);
    let base = match RNSBase::new(&mods) { Ok(b) => b, Err(e) => return fail(format!("RNSBase::new rejected a pairwise coprime base: {e} ({ctx})")) };
    let mut evals = 0u64; let mut alpha_nonzero = false; let mut near_boundary = false; let mut negative_sk = false;

    // ---------------- base precomputations
    if base.base_prod() != qprod.to_limbs(k).as_slice() { f.add("C10/base_prod", format!("base_prod = {:x?}, want {} ({ctx})", base.base_prod(), qprod.to_hex())); }
    for i in 0..k {
        let punct = qprod.div(&BigU::from_u64(c.moduli[i]));
        if k > 1 && base.punctured_prod()[i] != punct.to_limbs(k) { f.add("C10/punctured_prod", format!("punctured_prod[{i}] wrong ({ctx})")); }
        let inv = base.inv_punctured_prod_mod_base()[i].operand;
        if rm::mulmod(inv, punct.rem_u64(c.moduli[i]), c.moduli[i]) != 1 % c.moduli[i] { f.add("C10/inv_punctured_prod", format!("inv_punctured_prod_mod_base[{i}] wrong ({ctx})")); }
    }
    evals += 1;

    // ---------------- compose / decompose, single values and arrays
    let xs: Vec<BigU> = (0..n).map(|j| { let (s, l) = &c.raw[j % c.raw.len()]; int_below(s.wrapping_add(j as u8), &l[..], &qprod, &c.moduli) }).collect();
    {
        let x = &xs[0];
        let mut v = x.to_limbs(k);
        match catch(|| { base.decompose(&mut v); v }) {
            Ok(v) => { if v != residues(x, &c.moduli) { f.add("C10/decompose", format!("decompose({}) = {v:?}, want {:?} ({ctx})", x.to_hex(), residues(x, &c.moduli))); }
                       let mut w = v.clone();
                       match catch(|| { base.compose(&mut w); w }) { Ok(w) => if w != x.to_limbs(k) { f.add("C10/compose", format!("compose({v:?}) = {w:x?}, want {} ({ctx})", x.to_hex())); },
                                                                     Err(p) => f.add("C10/compose", format!("compose panicked: {p} ({ctx})")) } }
            Err(p) => f.add("C10/decompose", format!("decompose panicked: {p} ({ctx})")),
        }
        // arrays: input = n values of k limbs each, output [modulus][value]
        let mut arr: Vec<u64> = xs.iter().flat_map(|x| x.to_limbs(k)).collect();
        let orig = arr.clone();
        match catch(|| { base.decompose_array(&mut arr); arr }) {
            Ok(arr) => {
                let want = if k > 1 { layout(&xs.iter().map(|x| residues(x, &c.moduli)).collect::<Vec<_>>(), k) } else { orig.clone() };
                if arr != want { f.add("C10/decompose_array", format!("decompose_array wrong ({ctx})")); }
                let mut back = arr.clone();
                match catch(|| { base.compose_array(&mut back); back }) { Ok(b) => if b != orig { f.add("C10/compose_array", format!("compose_array(decompose_array(x)) != x ({ctx})")); },
                                                                          Err(p) => f.add("C10/compose_array", format!("compose_array panicked: {p} ({ctx})")) }
            }
            Err(p) => f.add("C10/decompose_array", format!("decompose_array panicked: {p} ({ctx})")),
        }
        evals += 4;
    }

    // ---------------- RNSTool
    let tmod = if c.t == 0 { Modulus::new(0) } else { Modulus::new(c.t) };
    let tool = match catch(|| RNSTool::new(n, &base, &tmod)) {
        Ok(Ok(t)) => t,
        Ok(Err(e)) => { f.add("C10/RNSTool::new", format!("RNSTool::new failed: {e} ({ctx})")); return f.verdict(Info::new(false)); }
        Err(p) => { f.add("C10/RNSTool::new", format!("RNSTool::new panicked: {p} ({ctx})")); return f.verdict(Info::new(false)); }
    };
    let bsk: Vec<u64> = tool.base_Bsk().base().iter().map(|m| m.value()).collect();
    let bskm: Vec<u64> = tool.base_Bsk_m_tilde().base().iter().map(|m| m.value()).collect();
    let bb: Vec<u64> = tool.base_B().base().iter().map(|m| m.value()).collect();
    let m_tilde = *bskm.last().unwrap();
    let nb = bsk.len();
    let bprod = BigU::product(&bb);
    let bskprod = BigU::product(&bsk);
    let qi = BigI::from_u(qprod.clone());

    // fastbconv_m_tilde: output represents |m~ x|_Q + alpha Q with one alpha in [0, k-1] for all output moduli
    let inq = layout(&xs.iter().map(|x| residues(x, &c.moduli)).collect::<Vec<_>>(), k);
    let mut ext = dirty(n * (nb + 1));
    match catch(|| { tool.fastbconv_m_tilde(&inq, &mut ext); }) {
        Err(p) => f.add("C10/fastbconv_m_tilde", format!("panicked: {p} ({ctx})")),
        Ok(()) => for j in 0..n {
            let y = xs[j].mul_u64(m_tilde).rem(&qprod);
            let got = column(&ext, n, nb + 1, j);
            let alpha = (0..k as u64).find(|a| residues(&y.add(&qprod.mul_u64(*a)), &bskm) == got);
            match alpha { None => f.add("C10/fastbconv_m_tilde", format!("x={}: output {got:?} is not |m~x|_Q + aQ for any a in [0,{}) ({ctx})", xs[j].to_hex(), k)), Some(a) => if a > 0 { alpha_nonzero = true; } }
            evals += 1;
        }
    }
    // sm_mrq: input integer v over Bsk u {m~}; output (v + Q r)/m~ with r = [-v/Q]_m~ centered in [-m~/2, m~/2)
    {
        let bound = qprod.mul_u64(m_tilde).mul_u64(k as u64 + 1); // the range produced by fastbconv_m_tilde
        let vs: Vec<BigU> = (0..n).map(|j| { let (s, l) = &c.raw[(j + 1) % c.raw.len()]; int_below(s.wrapping_add(3 * j as u8), &l[..], &bound, &c.moduli) }).collect();
        let inp = layout(&vs.iter().map(|v| residues(v, &bskm)).collect::<Vec<_>>(), nb + 1);
        let mut out = dirty(n * nb);
        match catch(|| tool.sm_mrq(&inp, &mut out)) {
            Err(p) => f.add("C10/sm_mrq", format!("panicked: {p} ({ctx})")),
            Ok(()) => for j in 0..n {
                let v = &vs[j];
                let qinv = rm::invmod(qprod.rem_u64(m_tilde), m_tilde).unwrap();
                let r_u = rm::mulmod(rm::negmod(v.rem_u64(m_tilde), m_tilde), qinv, m_tilde);
                let r = if r_u >= m_tilde / 2 { BigI::from_i128(r_u as i128 - m_tilde as i128) } else { BigI::from_i128(r_u as i128) };
                let num = BigI::from_u(v.clone()).add(&qi.mul(&r));
                let (quo, rem) = num.div_floor(&BigU::from_u64(m_tilde));
                if !rem.is_zero() { f.add("C10/sm_mrq", format!("oracle: v + Qr not divisible by m~ (v={})", v.to_hex())); continue; }
                let got = column(&out, n, nb, j);
                if got != residues_i(&quo, &bsk) { f.add("C10/sm_mrq", format!("v={}: got {got:?}, want (v+Qr)/m~ = {} ({ctx})", v.to_hex(), quo.to_string_hex())); }
                evals += 1;
            }
        }
    }
    // fast_floor: input integer a over q u Bsk, output floor(a/Q) - alpha, alpha in [0,k-1]
    {
        let bound = qprod.mul(&bskprod);
        let avs: Vec<BigU> = (0..n).map(|j| { let (s, l) = &c.raw[(j + 2) % c.raw.len()]; int_below(s.wrapping_add(5 * j as u8), &l[..], &bound, &c.moduli) }).collect();
        let mut all = c.moduli.clone(); all.extend_from_slice(&bsk);
        let inp = layout(&avs.iter().map(|a| residues(a, &all)).collect::<Vec<_>>(), k + nb);
        let mut out = dirty(n * nb);
        match catch(|| tool.fast_floor(&inp, &mut out)) {
            Err(p) => f.add("C10/fast_floor", format!("panicked: {p} ({ctx})")),
            Ok(()) => for j in 0..n {
                let fl = BigI::from_u(avs[j].div(&qprod));
                let got = column(&out, n, nb, j);
                let alpha = (0..k as i64).find(|a| residues_i(&fl.sub(&BigI::from_i64(*a)), &bsk) == got);
                match alpha { None => f.add("C10/fast_floor", format!("a={}: output is not floor(a/Q) - alpha for alpha in [0,{k}) ({ctx})", avs[j].to_hex())), Some(a) => if a > 0 { alpha_nonzero = true; } }
                evals += 1;
            }
        }
    }
    // fastbconv_sk: exact x mod q_i for every integer with |floor(x/B)| < 2^59, negative x included
    {
        let bound = bprod.shl(59);
        // independent of how the tool sized its auxiliary base: BFV multiplication feeds values up to K n t Q through this
        // conversion and the sizing rule reserves 32 bits for K n, so every |x| <= 2^30 t Q has to convert exactly
        let bfv_range = if c.t != 0 { Some(qprod.mul_u64(c.t).shl(30)) } else { None };
        let vals: Vec<BigI> = (0..n).map(|j| {
            let (s, l) = &c.raw[(j + 3) % c.raw.len()];
            let bnd = match &bfv_range { Some(r) if j % 2 == 1 => r, _ => &bound };
            let m = int_below(s.wrapping_add(7 * j as u8), &l[..], bnd, &c.moduli);
            let neg = (l[9] ^ j as u64) & 1 == 1;
            // negative values: floor(x/B) = -ceil(|x|/B) >= -2^59 requires |x| <= 2^59 B, guaranteed by bound (strict)
            BigI::new(neg, m)
        }).collect();
        if vals.iter().any(|v| v.neg) { negative_sk = true; }
        let inp = layout(&vals.iter().map(|v| residues_i(v, &bsk)).collect::<Vec<_>>(), nb);
        let mut out = dirty(n * k);
        match catch(|| tool.fastbconv_sk(&inp, &mut out)) {
            Err(p) => f.add("C10/fastbconv_sk", format!("panicked: {p} ({ctx})")),
            Ok(()) => for j in 0..n {
                let got = column(&out, n, k, j);
                if got != residues_i(&vals[j], &c.moduli) { f.add("C10/fastbconv_sk", format!("x={}: got {got:?}, want {:?} ({ctx})", vals[j].to_string_hex(), residues_i(&vals[j], &c.moduli))); }
                evals += 1;
            }
        }
    }
    // composition used by BFV multiplication on pairs (a, b): floor(t a' b' / Q) - alpha (mod Q), a' = a (mod Q)
    if c.t != 0 {
        let extend = |x: &BigU| -> Result<(Vec<u64>, BigI), String> {
            // broadcast the scalar into every coefficient slot
            let inq = layout(&vec![residues(x, &c.moduli); n], k);
            let mut e1 = dirty(n * (nb + 1)); let mut e2 = dirty(n * nb);
            catch(|| { tool.fastbconv_m_tilde(&inq, &mut e1); tool.sm_mrq(&e1, &mut e2); })?;
            let col = column(&e2, n, nb, 0);
            let v = centered(&crt_compose(&col, &bsk), &bskprod);
            Ok((col, v))
        };
        let a = &xs[0]; let b = &xs[n - 1];
        match (extend(a), extend(b)) {
            (Ok((ra, ia)), Ok((rb, ib))) => {
                let lim = qprod.mul_u64(k as u64 + 1);
                if ia.rem_floor(&qprod) != *a || ia.abs() > lim { f.add("C10/montgomery_extension", format!("a={}: extension {} is not congruent to a mod Q within (k+1)Q ({ctx})", a.to_hex(), ia.to_string_hex())); }
                if ib.rem_floor(&qprod) != *b || ib.abs() > lim { f.add("C10/montgomery_extension", format!("b={}: extension {} is not congruent to b mod Q within (k+1)Q ({ctx})", b.to_hex(), ib.to_string_hex())); }
                // products in q and Bsk, times t
                let cq: Vec<u64> = (0..k).map(|i| rm::mulmod(rm::mulmod(a.rem_u64(c.moduli[i]), b.rem_u64(c.moduli[i]), c.moduli[i]), c.t % c.moduli[i], c.moduli[i])).collect();
                let cb: Vec<u64> = (0..nb).map(|i| rm::mulmod(rm::mulmod(ra[i], rb[i], bsk[i]), c.t % bsk[i], bsk[i])).collect();
                let mut both = cq.clone(); both.extend_from_slice(&cb);
                let inp = layout(&vec![both; n], k + nb);
                let mut fl = dirty(n * nb); let mut out = dirty(n * k);
                match catch(|| { tool.fast_floor(&inp, &mut fl); tool.fastbconv_sk(&fl, &mut out); }) {
                    Err(p) => f.add("C10/bfv_multiply_pipeline", format!("panicked: {p} ({ctx})")),
                    Ok(()) => {
                        let prod = ia.mul(&ib).mul(&BigI::from_u(BigU::from_u64(c.t)));
                        let (flo, _) = prod.div_floor(&qprod);
                        let got = column(&out, n, k, 0);
                        let ok = (0..k as i64).any(|al| residues_i(&flo.sub(&BigI::from_i64(al)), &c.moduli) == got);
                        if !ok { f.add("C10/bfv_multiply_pipeline", format!("a={} b={}: result {got:?} is not floor(t a' b'/Q) - alpha (mod q_i) ({ctx})", a.to_hex(), b.to_hex())); }
                    }
                }
                evals += 1;
            }
            (Err(p), _) | (_, Err(p)) => f.add("C10/montgomery_extension", format!("panicked: {p} ({ctx})")),
        }
    }
    // division by the last prime
    if k >= 2 {
        let ql = c.moduli[k - 1]; let qlb = BigU::from_u64(ql);
        let head = &c.moduli[..k - 1];
        let inq = layout(&xs.iter().map(|x| residues(x, &c.moduli)).collect::<Vec<_>>(), k);
        let want_round: Vec<Vec<u64>> = xs.iter().map(|x| residues(&x.add_u64(ql >> 1).div(&qlb), head)).collect();
        for x in &xs { let fr = x.rem(&qlb); let d = if fr.to_u64().unwrap() > ql / 2 { ql - fr.to_u64().unwrap() } else { fr.to_u64().unwrap() }; if (ql / 2).abs_diff(d) <= 1 { near_boundary = true; } }
        let mut d = inq.clone();
        match catch(|| { tool.divide_and_round_q_last_inplace(&mut d); d }) {
            Err(p) => f.add("C10/divide_and_round_q_last_inplace", format!("panicked: {p} ({ctx})")),
            Ok(d) => for j in 0..n { let got = column(&d, n, k, j)[..k - 1].to_vec(); if got != want_round[j] { f.add("C10/divide_and_round_q_last_inplace", format!("x={}: got {got:?}, want floor((x+floor(q_l/2))/q_l) = {:?} ({ctx})", xs[j].to_hex(), want_round[j])); } evals += 1; }
        }
        let tables = if c.ntt_friendly { NTTTables::create_ntt_tables(c.logn as usize, &mods).ok() } else { None };
        if let Some(tb) = &tables {
            let mut d = inq.clone();
            for i in 0..k { tb[i].ntt_negacyclic_harvey(&mut d[i * n..(i + 1) * n]); }
            match catch(|| { tool.divide_and_round_q_last_ntt_inplace(&mut d, tb); d }) {
                Err(p) => f.add("C10/divide_and_round_q_last_ntt_inplace", format!("panicked: {p} ({ctx})")),
                Ok(mut d) => {
                    for i in 0..k - 1 { if d[i * n..(i + 1) * n].iter().any(|&v| v >= c.moduli[i]) { f.add("C10/divide_and_round_q_last_ntt_inplace", format!("output component {i} not reduced ({ctx})")); } tb[i].inverse_ntt_negacyclic_harvey(&mut d[i * n..(i + 1) * n]); }
                    for j in 0..n { let got = column(&d, n, k, j)[..k - 1].to_vec(); if got != want_round[j] { f.add("C10/divide_and_round_q_last_ntt_inplace", format!("x={}: NTT variant got {got:?}, want {:?} ({ctx})", xs[j].to_hex(), want_round[j])); } evals += 1; }
                }
            }
        }
        if c.t != 0 {
            // BGV variant: (x - x_l - u q_l)/q_l with u = [-x_l q_l^{-1}]_t; hence = x q_l^{-1} (mod t)
            let t = c.t;
            let inv_ql_t = rm::invmod(ql % t, t).unwrap();
            let want: Vec<(Vec<u64>, BigI)> = xs.iter().map(|x| {
                let xl = x.rem_u64(ql);
                let u = rm::mulmod(rm::negmod(xl % t, t), inv_ql_t, t);
                let num = BigI::from_u(x.clone()).sub(&BigI::from_u(BigU::from_u64(xl))).sub(&BigI::from_u(BigU::from_u64(u).mul_u64(ql)));
                let (y, r) = num.div_floor(&qlb);
                assert!(r.is_zero());
                (residues_i(&y, head), y)
            }).collect();
            for (j, (_, y)) in want.iter().enumerate() {
                if rm::mulmod(y.rem_u64(t), ql % t, t) != xs[j].rem_u64(t) { f.add("C10/oracle", "oracle inconsistency: y q_l != x (mod t)"); }
            }
            let mut d = inq.clone();
            match catch(|| { tool.mod_t_and_divide_q_last_inplace(&mut d); d }) {
                Err(p) => f.add("C10/mod_t_and_divide_q_last_inplace", format!("panicked: {p} ({ctx})")),
                Ok(d) => for j in 0..n { let got = column(&d, n, k, j)[..k - 1].to_vec(); if got != want[j].0 { f.add("C10/mod_t_and_divide_q_last_inplace", format!("x={}: got {got:?}, want {:?} ({ctx})", xs[j].to_hex(), want[j].0)); } evals += 1; }
            }
            if let Some(tb) = &tables {
                let mut d = inq.clone();
                for i in 0..k { tb[i].ntt_negacyclic_harvey(&mut d[i * n..(i + 1) * n]); }
                match catch(|| { tool.mod_t_and_divide_q_last_ntt_inplace(&mut d, tb); d }) {
                    Err(p) => f.add("C10/mod_t_and_divide_q_last_ntt_inplace", format!("panicked: {p} ({ctx})")),
                    Ok(mut d) => {
                        for i in 0..k - 1 { tb[i].inverse_ntt_negacyclic_harvey(&mut d[i * n..(i + 1) * n]); }
                        for j in 0..n { let got = column(&d, n, k, j)[..k - 1].to_vec(); if got != want[j].0 { f.add("C10/mod_t_and_divide_q_last_ntt_inplace", format!("x={}: NTT variant got {got:?}, want {:?} ({ctx})", xs[j].to_hex(), want[j].0)); } evals += 1; }
                    }
                }
            }
        }
    }
    // decryption helpers
    if c.t != 0 {
        let t = c.t; let tb = BigU::from_u64(t);
        let inq = layout(&xs.iter().map(|x| residues(x, &c.moduli)).collect::<Vec<_>>(), k);
        // scale-and-round: round(t x / Q) mod t whenever frac(t x/Q) is at least 2^-40 away from 1/2
        let mut out = dirty(n);
        match catch(|| tool.decrypt_scale_and_round(&inq, &mut out)) {
            Err(p) => f.add("C10/decrypt_scale_and_round", format!("panicked: {p} ({ctx})")),
            Ok(()) => for j in 0..n {
                let num = xs[j].mul(&tb);
                let (fl, r) = num.divrem(&qprod);
                // distance of r/Q from 1/2, scaled: |2r - Q| * 2^40 >= 2Q  <=>  far enough
                let two_r = r.shl(1);
                let dist = if two_r >= qprod { two_r.sub(&qprod) } else { qprod.sub(&two_r) };
                if dist.shl(40) < qprod.shl(1) { near_boundary = true; continue; }
                let want = if two_r >= qprod { fl.add_u64(1) } else { fl }.rem_u64(t);
                if dist.shl(8) < qprod.shl(1) { near_boundary = true; }
                if out[j] != want { f.add("C10/decrypt_scale_and_round", format!("x={}: got {}, want round(t x/Q) mod t = {want} ({ctx})", xs[j].to_hex(), out[j])); }
                evals += 1;
            }
        }
        // mod-t decryption: centered x mod t whenever | x/Q - 1/2 | > 2^-30
        let mut out = dirty(n);
        match catch(|| tool.decrypt_mod_t(&inq, &mut out)) {
            Err(p) => f.add("C10/decrypt_mod_t", format!("panicked: {p} ({ctx})")),
            Ok(()) => for j in 0..n {
                let two_x = xs[j].shl(1);
                let dist = if two_x >= qprod { two_x.sub(&qprod) } else { qprod.sub(&two_x) };
                if dist.shl(30) < qprod.shl(1) { continue; }
                let want = centered(&xs[j], &qprod).rem_u64(t);
                if out[j] != want { f.add("C10/decrypt_mod_t", format!("x={}: got {}, want centered x mod t = {want} ({ctx})", xs[j].to_hex(), out[j])); }
                evals += 1;
            }
        }
    }
    let nontrivial = k >= 2 && (alpha_nonzero || near_boundary || negative_sk);
    f.verdict(Info::new(nontrivial).evals(evals).label(format!("k={k}")).label_if(c.ntt_friendly, "ntt-friendly").label_if(c.t == 0, "t=0")
        .label_if(alpha_nonzero, "alpha!=0").label_if(near_boundary, "near rounding boundary").label_if(negative_sk, "negative SK input"))
}

// ---------------------------------------------------------------------------------------------
// exhaustive small bases: every integer below the product, compose/decompose bijection, division, decryption helpers

#[derive(Clone, Debug, Serialize, Deserialize)]
pub struct SmallBase { pub moduli: Vec<u64>, pub t: u64 }

fn small_bases(tier: Tier) -> Vec<SmallBase> {
    // NTT-friendly for N=2: primes = 1 mod 4
    let ps: Vec<u64> = vec![5, 13, 17, 29, 37, 41, 53];
    let mut out = vec![];
    for i in 0..ps.len() { for j in 0..ps.len() { if i != j {
        for t in [2u64, 3, 4, 7] { out.push(SmallBase { moduli: vec![ps[i], ps[j]], t }); }
        if tier == Tier::Thorough || (i + j) % 3 == 0 { for l in 0..ps.len() { if l != i && l != j && ps[i] * ps[j] * ps[l] < 20000 { out.push(SmallBase { moduli: vec![ps[i], ps[j], ps[l]], t: 3 }); } } }
    } } }
    // bases with an even / composite member for compose-decompose only (t = 0)
    for m in [vec![2u64, 3], vec![4, 9, 5], vec![6, 35], vec![15, 16, 7]] { out.push(SmallBase { moduli: m, t: 0 }); }
    out
}

fn small_oracle(c: &SmallBase) -> Verdict {
    let k = c.moduli.len();
    let mods: Vec<Modulus> = c.moduli.iter().map(|q| Modulus::new(*q)).collect();
    let base = match RNSBase::new(&mods) { Ok(b) => b, Err(e) => return fail(format!("RNSBase::new: {e}")) };
    let q: u64 = c.moduli.iter().product();
    let mut seen = std::collections::HashSet::new();
    let mut evals = 0u64;
    let tool = if c.t != 0 { Some(RNSTool::new(2, &base, &Modulus::new(c.t)).map_err(|e| e.to_string())) } else { None };
    let tool = match tool { Some(Err(e)) => return fail(format!("RNSTool::new: {e}")), Some(Ok(t)) => Some(t), None => None };
    for x in 0..q {
        let mut v = vec![0u64; k]; v[0] = x;
        base.decompose(&mut v);
        let want: Vec<u64> = c.moduli.iter().map(|m| x % m).collect();
        check_eq!(v, want, "decompose({x}) base {:?}", c.moduli);
        check!(seen.insert(v.clone()), "decompose not injective at {x}");
        base.compose(&mut v);
        check!(v[0] == x && v[1..].iter().all(|&w| w == 0), "compose(decompose({x})) = {v:?} base {:?}", c.moduli);
        evals += 2;
        if let Some(tool) = &tool {
            let t = c.t; let ql = c.moduli[k - 1];
            // two coefficients: x and q-1-x
            let x2 = q - 1 - x;
            let inp: Vec<u64> = c.moduli.iter().flat_map(|m| vec![x % m, x2 % m]).collect();
            let mut d = inp.clone(); tool.divide_and_round_q_last_inplace(&mut d);
            for (jj, xv) in [x, x2].iter().enumerate() { for i in 0..k - 1 { check_eq!(d[i * 2 + jj], ((xv + ql / 2) / ql) % c.moduli[i], "divide_and_round x={xv} base {:?}", c.moduli); } }
            let mut out = dirty(2); tool.decrypt_scale_and_round(&inp, &mut out);
            for (jj, xv) in [x, x2].iter().enumerate() {
                let num = (*xv as u128) * t as u128; let (fl, r) = (num / q as u128, num % q as u128);
                if 2 * r == q as u128 { continue; }
                let want = ((if 2 * r > q as u128 { fl + 1 } else { fl }) % t as u128) as u64;
                check_eq!(out[jj], want, "decrypt_scale_and_round x={xv} t={t} base {:?}", c.moduli);
            }
            let mut out = dirty(2); tool.decrypt_mod_t(&inp, &mut out);
            for (jj, xv) in [x, x2].iter().enumerate() {
                if 2 * xv == q { continue; }
                let want = if 2 * xv > q { (t - (q - xv) % t) % t } else { xv % t };
                check_eq!(out[jj], want, "decrypt_mod_t x={xv} t={t} base {:?}", c.moduli);
            }
            let mut d = inp.clone(); tool.mod_t_and_divide_q_last_inplace(&mut d);
            for (jj, xv) in [x, x2].iter().enumerate() {
                let xl = xv % ql; let u = ((t - xl % t) % t * rm::invmod(ql % t, t).unwrap()) % t;
                let y = (*xv as i128 - xl as i128 - (u * ql) as i128) / ql as i128;
                for i in 0..k - 1 { check_eq!(d[i * 2 + jj], y.rem_euclid(c.moduli[i] as i128) as u64, "mod_t_and_divide x={xv} t={t} base {:?}", c.moduli); }
            }
            evals += 8;
        }
    }
    check_eq!(seen.len() as u64, q, "decompose image size");
    Verdict::Pass(Info::new(true).evals(evals))
}

pub fn def() -> PropertyDef {
    PropertyDef {
        id: "C10",
        level: "exploration",
        rule: "random: bases of 1..8 pairwise-coprime odd moduli of 2..60 bits (half of them NTT primes for N=2..8 so the NTT variants run), any order, t of 2..60 bits coprime to the base or 0; N integers per routine drawn from {0,1,bound-1,bound/2,bound/2+1,multiples of q_i +-1,small,uniform}; exhaustive: every integer below the product for all ordered pairs/triples of small primes. non-trivial: k>=2 and (an alpha != 0 observed, or an input within 2^-8 of a rounding boundary, or a negative Shenoy-Kumaresan input). distinct = distinct serialized cases.",
        assumptions: vec![
            "oracle: BigU/BigI integer arithmetic on the integers represented by the residue vectors; own CRT",
            "RNSTool is exercised on odd pairwise-coprime bases with t coprime to every modulus, as every validated context guarantees",
            "scale-and-round compared only when frac(t x/Q) is at least 2^-40 away from 1/2, mod-t decryption when |x/Q - 1/2| > 2^-30 (stated noise bound)",
        ],
        subs: vec![
            Sub::prop("rns_routines", 400_000, 2_000_000, 0.3, rns_case, rns_oracle).fuzzable(rns_decode, rns_oracle),
            Sub::corpus("fuzz_corpus_rns", "c10_rns", rns_decode, rns_oracle),
            Sub::enumerate("small_bases_exhaustive", small_bases, small_oracle),
        ],
    }
}
