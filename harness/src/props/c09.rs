//! C09 — the NTT is the documented evaluation map, invertible, convolution-preserving.
//! Oracle: naive evaluation / convolution with u128 arithmetic and an independently computed
//! minimal primitive 2N-th root (refmath).
use crate::gen::*;
use crate::refmath as rm;
use crate::runner::*;
use heathcliff::util::NTTTables;
use heathcliff::verif_hooks::polysmallmod as pm;
use heathcliff::Modulus;
use proptest::prelude::*;
use serde::{Deserialize, Serialize};

fn tables(logn: u32, p: u64) -> Result<NTTTables, String> {
    let m = Modulus::new(p);
    NTTTables::new(logn as usize, &m).map_err(|e| e.to_string())
}

/// an output buffer that was used before (values above every modulus): a routine has to overwrite all of it
fn junk(len: usize) -> Vec<u64> { (0..len as u64).map(|i| u64::MAX - 3 * i).collect() }

/// psi^(2*bitrev(i)+1) exponents
fn eval_exponent(i: usize, logn: u32) -> u64 { 2 * rm::bitrev(i, logn) as u64 + 1 }

// ---------------------------------------------------------------------------------------------
// unit vectors (the map is linear): exhaustive for a list of (N, p)

#[derive(Clone, Debug, Serialize, Deserialize)]
pub struct UnitCase { pub logn: u32, pub p: u64, pub j0: usize, pub j1: usize }

fn unit_cases(tier: Tier) -> Vec<UnitCase> {
    let maxlog = tier.pick(11, 13);
    let mut out = vec![];
    for logn in 1..=maxlog {
        let n = 1usize << logn;
        // smallest possible prime, a mid-size one, 60-bit user prime, 61-bit internal prime
        let mut ps = vec![ntt_prime(logn, logn + 2, 0x80), ntt_prime(logn, 30.max(logn + 2), 1), ntt_prime(logn, 60, 0), ntt_prime(logn, 61, 0)];
        ps.dedup();
        if logn > 10 { ps = vec![ps[0], ps[3]]; }
        for p in ps {
            let chunk = (n / 16).max(64).min(n);
            let mut j0 = 0;
            while j0 < n { out.push(UnitCase { logn, p, j0, j1: (j0 + chunk).min(n) }); j0 += chunk; }
        }
    }
    out
}

fn unit_oracle(c: &UnitCase) -> Verdict {
    let n = 1usize << c.logn; let p = c.p;
    let t = match tables(c.logn, p) { Ok(t) => t, Err(e) => return fail(format!("NTTTables::new({}, {p}) failed: {e}", c.logn)) };
    let psi = match rm::minimal_primitive_root(2 * n as u64, p) { Some(r) => r, None => return fail("oracle: no primitive root") };
    check_eq!(t.root(), psi, "root of degree 2^{} modulus {p} is not the minimal primitive 2N-th root", c.logn);
    // table of psi powers 0..2N
    let mut pw = vec![1u64; 2 * n];
    for k in 1..2 * n { pw[k] = rm::mulmod(pw[k - 1], psi, p); }
    let mut evals = 0u64;
    for j in c.j0..c.j1 {
        let mut v = vec![0u64; n]; v[j] = 1;
        t.ntt_negacyclic_harvey(&mut v);
        for i in 0..n {
            let e = (eval_exponent(i, c.logn) as u128 * j as u128 % (2 * n) as u128) as usize;
            if v[i] != pw[e] { return fail(format!("forward NTT of X^{j} (N={n}, q={p}): output[{i}] = {}, want psi^({}*{j}) = {}", v[i], eval_exponent(i, c.logn), pw[e])); }
        }
        t.inverse_ntt_negacyclic_harvey(&mut v);
        for i in 0..n { if v[i] != (i == j) as u64 { return fail(format!("inverse(forward(X^{j})) (N={n}, q={p}): coefficient {i} = {}", v[i])); } }
        // scaled unit vector (q-1)·X^j through the lazy path
        let mut w = vec![0u64; n]; w[j] = p - 1;
        t.ntt_negacyclic_harvey_lazy(&mut w);
        for i in 0..n {
            let e = (eval_exponent(i, c.logn) as u128 * j as u128 % (2 * n) as u128) as usize;
            if w[i] >= 4 * p || w[i] % p != rm::negmod(pw[e], p) { return fail(format!("lazy forward NTT of (q-1)X^{j} (N={n}, q={p}): output[{i}] = {} (4q = {}), want congruent to {}", w[i], 4 * p, rm::negmod(pw[e], p))); }
        }
        evals += 3;
    }
    Verdict::Pass(Info::new(c.j1 > 1).evals(evals).label(format!("N=2^{}", c.logn)).label_if(p >> 60 == 1, "61-bit prime"))
}

// ---------------------------------------------------------------------------------------------
// random vectors

#[derive(Clone, Debug, Serialize, Deserialize)]
pub struct VecCase {
    pub logn: u32, pub p: u64,
    pub kind: u8,
    pub a: Vec<u64>, pub b: Vec<u64>,
    /// lazy multiples added to a: each in 0..4
    pub lazy: Vec<u8>,
    pub positions: Vec<u16>,
    pub shift: u16, pub mono: u64,
}

fn vec_case(tier: Tier) -> BoxedStrategy<VecCase> {
    let maxlog = tier.pick(11u32, 13u32);
    (prop_oneof![6 => 1u32..=6, 3 => 7u32..=9, 1 => 10u32..=maxlog], 2u32..=61, any::<u8>(), 0u8..7)
        .prop_flat_map(|(logn, bits, sel, kind)| {
            let n = 1usize << logn;
            let p = ntt_prime(logn, bits, sel);
            (Just(logn), Just(p), Just(kind), proptest::collection::vec(any::<u64>(), n), proptest::collection::vec(any::<u64>(), n),
             proptest::collection::vec(0u8..4, n), proptest::collection::vec(any::<u16>(), 12), any::<u16>(), any::<u64>())
        })
        .prop_map(|(logn, p, kind, ra, rb, lazy, positions, shift, mono)| {
            let n = 1usize << logn;
            let a: Vec<u64> = match kind { 0 => vec![p - 1; n], 3 => ra.iter().map(|r| if r % 4 != 0 { 0 } else { r % p }).collect(), 1 => ra.iter().map(|r| if r % 3 == 0 { p - 1 } else { r % p }).collect(), _ => ra.iter().map(|r| r % p).collect() };
            // b: dense for small N, sparse above 256 so the naive product stays cheap
            let b: Vec<u64> = if n <= 256 { rb.iter().map(|r| r % p).collect() } else {
                let mut v = vec![0u64; n];
                for k in 0..4 { v[(rb[k] % n as u64) as usize] = rb[k + 4] % p; }
                v
            };
            VecCase { logn, p, kind, a, b, lazy, positions, shift, mono: mono % p }
        }).boxed()
}

fn vec_oracle(c: &VecCase) -> Verdict {
    let n = 1usize << c.logn; let p = c.p;
    if c.a.len() != n || c.b.len() != n { return fail("malformed case"); }
    let t = match tables(c.logn, p) { Ok(t) => t, Err(e) => return fail(format!("NTTTables::new failed: {e}")) };
    let psi = match rm::minimal_primitive_root(2 * n as u64, p) { Some(r) => r, None => return fail("oracle: no primitive root") };
    check_eq!(t.root(), psi, "root (N={n}, q={p})");
    // determinism: a second, independently constructed table is identical
    let t2 = tables(c.logn, p).unwrap();
    check!(t2.root() == t.root() && t2.inv_degree_modulo().operand == t.inv_degree_modulo().operand
        && t.get_root_powers().iter().zip(t2.get_root_powers()).all(|(x, y)| x.operand == y.operand && x.quotient == y.quotient)
        && t.get_inv_root_powers().iter().zip(t2.get_inv_root_powers()).all(|(x, y)| x.operand == y.operand && x.quotient == y.quotient),
        "two NTTTables for (N={n}, q={p}) differ");
    check_eq!(rm::mulmod(t.inv_degree_modulo().operand, n as u64 % p, p), 1 % p, "inv_degree_modulo (N={n}, q={p})");
    let mut evals = 2u64;
    // forward = evaluation at psi^(2 bitrev(i)+1), checked by Horner at all / sampled positions
    let mut fa = c.a.clone();
    t.ntt_negacyclic_harvey(&mut fa);
    let positions: Vec<usize> = if n <= 64 { (0..n).collect() } else { c.positions.iter().map(|s| pick_idx(*s, n)).chain([0, n - 1]).collect() };
    for &i in &positions {
        let x = rm::powmod(psi, eval_exponent(i, c.logn), p);
        let want = rm::eval_poly(&c.a, x, p);
        if fa[i] != want { return fail(format!("forward NTT (N={n}, q={p}): output[{i}] = {}, want a(psi^{}) = {want}", fa[i], eval_exponent(i, c.logn))); }
    }
    check!(fa.iter().all(|&x| x < p), "forward NTT output not reduced below q (N={n}, q={p})");
    // inverse o forward = id, forward o inverse = id
    let mut back = fa.clone(); t.inverse_ntt_negacyclic_harvey(&mut back);
    check!(back == c.a, "inverse(forward(a)) != a (N={n}, q={p})");
    let mut ia = c.a.clone(); t.inverse_ntt_negacyclic_harvey(&mut ia);
    check!(ia.iter().all(|&x| x < p), "inverse NTT output not reduced below q (N={n}, q={p})");
    let mut fia = ia.clone(); t.ntt_negacyclic_harvey(&mut fia);
    check!(fia == c.a, "forward(inverse(a)) != a (N={n}, q={p})");
    evals += 4;
    // lazy forward: inputs < 4q => outputs < 4q and congruent
    let mut la: Vec<u64> = c.a.iter().zip(c.lazy.iter()).map(|(x, k)| x + (*k as u64 % 4) * p).collect();
    if c.kind == 0 { la = vec![4 * p - 1; n]; }
    let want_lazy: Vec<u64> = if c.kind == 0 { let mut w: Vec<u64> = la.iter().map(|x| x % p).collect(); t.ntt_negacyclic_harvey(&mut w); w } else { fa.clone() };
    t.ntt_negacyclic_harvey_lazy(&mut la);
    for i in 0..n { if la[i] >= 4 * p || la[i] % p != want_lazy[i] { return fail(format!("lazy forward NTT (N={n}, q={p}): output[{i}] = {} not in [0,4q) or not congruent to {}", la[i], want_lazy[i])); } }
    // lazy inverse: inputs < 2q => outputs < 2q and congruent
    let mut li: Vec<u64> = c.a.iter().zip(c.lazy.iter()).map(|(x, k)| x + (*k as u64 % 2) * p).collect();
    if c.kind == 0 { li = vec![2 * p - 1; n]; }
    let want_li: Vec<u64> = if c.kind == 0 { let mut w: Vec<u64> = li.iter().map(|x| x % p).collect(); t.inverse_ntt_negacyclic_harvey(&mut w); w } else { ia.clone() };
    t.inverse_ntt_negacyclic_harvey_lazy(&mut li);
    for i in 0..n { if li[i] >= 2 * p || li[i] % p != want_li[i] { return fail(format!("lazy inverse NTT (N={n}, q={p}): output[{i}] = {} not in [0,2q) or not congruent to {}", li[i], want_li[i])); } }
    evals += 2;
    // convolution theorem through the H1 helpers
    let m = Modulus::new(p);
    let mut fb = c.b.clone(); pm::ntt(&mut fb, &t);
    let mut fa2 = c.a.clone(); pm::ntt(&mut fa2, &t);
    check!(fa2 == fa, "polysmallmod::ntt differs from NTTTables::ntt_negacyclic_harvey");
    let mut prod = junk(n);
    pm::dyadic_product(&fa, &fb, &m, &mut prod);
    for i in 0..n { if prod[i] != rm::mulmod(fa[i], fb[i], p) { return fail(format!("dyadic_product[{i}]: {}*{} mod {p} = {}", fa[i], fb[i], prod[i])); } }
    let mut prod2 = fa.clone(); pm::dyadic_product_inplace(&mut prod2, &fb, &m);
    check!(prod2 == prod, "dyadic_product_inplace differs from dyadic_product");
    pm::intt(&mut prod, &t);
    let naive = if n <= 256 { rm::negacyclic_mul(&c.a, &c.b, p) } else { rm::negacyclic_mul(&c.b, &c.a, p) }; // skips zero rows of the first operand
    check!(prod == naive, "intt(ntt(a) .* ntt(b)) != a*b mod (X^N+1, q) (N={n}, q={p})");
    evals += 4;
    // negacyclic shift / monomial multiplication
    let s = (c.shift as usize) % (2 * n);
    let mut sh = junk(n); pm::negacyclic_shift(&c.a, s, &m, &mut sh);
    check!(sh == rm::negacyclic_shift(&c.a, s, p), "negacyclic_shift by {s} (N={n}, q={p})");
    let mut mo = junk(n); pm::negacyclic_multiply_mononomial(&c.a, c.mono, s, &m, &mut mo);
    let want_mo: Vec<u64> = rm::negacyclic_shift(&c.a, s, p).iter().map(|x| rm::mulmod(*x, c.mono, p)).collect();
    check!(mo == want_mo, "negacyclic_multiply_mononomial coeff {} exponent {s} (N={n}, q={p})", c.mono);
    let mut mo2 = c.a.clone(); pm::negacyclic_multiply_mononomial_inplace(&mut mo2, c.mono, s, &m);
    check!(mo2 == want_mo, "negacyclic_multiply_mononomial_inplace coeff {} exponent {s} (N={n}, q={p})", c.mono);
    evals += 3;
    let nontrivial = c.a.iter().any(|&x| x == p - 1) || p >> 59 != 0;
    Verdict::Pass(Info::new(nontrivial).evals(evals).label(format!("logN={}", c.logn)).label(format!("bits={}", 64 - p.leading_zeros()))
        .label_if(c.kind == 0, "lazy maxima").label_if(c.kind == 3, "mostly-zero with lazy multiples").label_if(p >> 60 == 1, "61-bit prime"))
}

// ---------------------------------------------------------------------------------------------
// multi-modulus wrappers and layout (ntt_p / intt_p / dyadic_product_p ...), rejection of unsuitable moduli

#[derive(Clone, Debug, Serialize, Deserialize)]
pub struct PolyCase { pub logn: u32, pub primes: Vec<u64>, pub data: Vec<u64>, pub bad_modulus: u64 }

fn poly_case() -> BoxedStrategy<PolyCase> {
    (1u32..=7, proptest::collection::vec((2u32..=61, any::<u8>()), 1..5), any::<u64>())
        .prop_flat_map(|(logn, specs, bad)| {
            let bits: Vec<u32> = specs.iter().map(|s| s.0).collect();
            let sels: Vec<u8> = specs.iter().map(|s| s.1).collect();
            let primes = ntt_primes_distinct(logn, &bits, &sels);
            let n = 1usize << logn;
            (Just(logn), Just(primes.clone()), proptest::collection::vec(any::<u64>(), n * primes.len()), Just(bad))
        })
        .prop_map(|(logn, primes, raw, bad)| {
            let n = 1usize << logn;
            let data = raw.iter().enumerate().map(|(i, r)| r % primes[i / n]).collect();
            PolyCase { logn, primes, data, bad_modulus: 2 + bad % ((1u64 << 61) - 2) }
        }).boxed()
}

fn poly_oracle(c: &PolyCase) -> Verdict {
    let n = 1usize << c.logn; let k = c.primes.len();
    let moduli: Vec<Modulus> = c.primes.iter().map(|p| Modulus::new(*p)).collect();
    let ts = match NTTTables::create_ntt_tables(c.logn as usize, &moduli) { Ok(t) => t, Err(e) => return fail(format!("create_ntt_tables failed for {:?}: {e}", c.primes)) };
    let mut f = c.data.clone();
    pm::ntt_p(&mut f, n, &ts);
    for j in 0..k {
        let mut comp = c.data[j * n..(j + 1) * n].to_vec();
        ts[j].ntt_negacyclic_harvey(&mut comp);
        check!(comp[..] == f[j * n..(j + 1) * n], "ntt_p component {j} differs from the single-modulus transform (primes {:?})", c.primes);
    }
    let mut sq = junk(n * k);
    pm::dyadic_product_p(&f, &f, n, &moduli, &mut sq);
    pm::intt_p(&mut sq, n, &ts);
    for j in 0..k {
        let a = &c.data[j * n..(j + 1) * n];
        check!(sq[j * n..(j + 1) * n] == rm::negacyclic_mul(a, a, c.primes[j])[..], "intt_p(ntt_p(a)^2) component {j} != a*a (primes {:?})", c.primes);
    }
    let mut back = f.clone(); pm::intt_p(&mut back, n, &ts);
    check!(back == c.data, "intt_p(ntt_p(a)) != a");
    // layout of the multi-polynomial (_ps) and multi-modulus (_p) wrappers: pc polynomials of k components each, pc chosen
    // independently of k; every wrapper must equal the single-component routine applied to component (i, j)
    {
        let pc = 1 + (c.bad_modulus % 3) as usize; let d = n * k;
        let shift = (c.bad_modulus >> 8) as usize % n; let mono = 1 + (c.bad_modulus >> 20) % (c.primes.iter().min().unwrap() - 1).max(1);
        let polys: Vec<u64> = (0..pc).flat_map(|i| c.data.iter().enumerate().map(move |(x, v)| (*v, x, i))).map(|(v, x, i)| (v + i as u64 * 7) % c.primes[x / n]).collect();
        let comp = |v: &[u64], i: usize, j: usize| v[i * d + j * n..i * d + (j + 1) * n].to_vec();
        let mut fwd = polys.clone(); pm::ntt_ps(&mut fwd, pc, n, &ts);
        let mut dy = junk(pc * d); pm::dyadic_product_ps(&fwd, &fwd, pc, n, &moduli, &mut dy);
        let mut dyi = fwd.clone(); pm::dyadic_product_inplace_ps(&mut dyi, &fwd, pc, n, &moduli);
        let mut sh = junk(pc * d); pm::negacyclic_shift_ps(&polys, shift, pc, n, &moduli, &mut sh);
        let mut mo = junk(pc * d); pm::negacyclic_multiply_mononomial_ps(&polys, mono, shift, pc, n, &moduli, &mut mo);
        let mut moi = polys.clone(); pm::negacyclic_multiply_mononomial_inplace_ps(&mut moi, mono, shift, pc, n, &moduli);
        let mut back2 = fwd.clone(); pm::intt_ps(&mut back2, pc, n, &ts);
        check!(back2 == polys, "intt_ps(ntt_ps(a)) != a for {pc} polynomials over {k} moduli");
        // lazy multi-polynomial transforms, per-modulus monomial coefficients, and the single-polynomial (_p) wrappers on polynomial 0
        let mut lz = polys.clone(); pm::ntt_lazy_ps(&mut lz, pc, n, &ts);
        let mut ilz = fwd.clone(); pm::intt_lazy_ps(&mut ilz, pc, n, &ts);
        let monos: Vec<u64> = (0..k).map(|j| 1 + (mono + 3 * j as u64) % (c.primes[j] - 1)).collect();
        let mut ms = junk(pc * d); pm::negacyclic_multiply_mononomials_ps(&polys, &monos, shift, pc, n, &moduli, &mut ms);
        let mut msi = polys.clone(); pm::negacyclic_multiply_mononomials_inplace_ps(&mut msi, &monos, shift, pc, n, &moduli);
        let p0 = polys[..d].to_vec(); let f0 = fwd[..d].to_vec();
        let mut lz_p = p0.clone(); pm::ntt_lazy_p(&mut lz_p, n, &ts);
        let mut ilz_p = f0.clone(); pm::intt_lazy_p(&mut ilz_p, n, &ts);
        let mut dyi_p = f0.clone(); pm::dyadic_product_inplace_p(&mut dyi_p, &f0, n, &moduli);
        let mut sh_p = junk(d); pm::negacyclic_shift_p(&p0, shift, n, &moduli, &mut sh_p);
        let mut mo_p = junk(d); pm::negacyclic_multiply_mononomial_p(&p0, mono, shift, n, &moduli, &mut mo_p);
        let mut moi_p = p0.clone(); pm::negacyclic_multiply_mononomial_inplace_p(&mut moi_p, mono, shift, n, &moduli);
        let mut ms_p = junk(d); pm::negacyclic_multiply_mononomials_p(&p0, &monos, shift, n, &moduli, &mut ms_p);
        let mut msi_p = p0.clone(); pm::negacyclic_multiply_mononomials_inplace_p(&mut msi_p, &monos, shift, n, &moduli);
        for j in 0..k {
            let a = p0[j * n..(j + 1) * n].to_vec(); let p = c.primes[j];
            let mut fa = a.clone(); ts[j].ntt_negacyclic_harvey(&mut fa);
            let cj = |v: &[u64]| v[j * n..(j + 1) * n].to_vec();
            check!(cj(&lz_p).iter().zip(fa.iter()).all(|(x, w)| *x < 4 * p && x % p == *w), "ntt_lazy_p: component {j} of {k} not in [0,4q) or not congruent to the transform");
            check!(cj(&ilz_p).iter().zip(a.iter()).all(|(x, w)| *x < 2 * p && x % p == *w), "intt_lazy_p: component {j} of {k} not in [0,2q) or not congruent to the inverse transform");
            check!(cj(&dyi_p) == fa.iter().map(|x| rm::mulmod(*x, *x, p)).collect::<Vec<_>>(), "dyadic_product_inplace_p: component {j} of {k}");
            let ws = rm::negacyclic_shift(&a, shift, p);
            check!(cj(&sh_p) == ws, "negacyclic_shift_p by {shift}: component {j} of {k}");
            let wm: Vec<u64> = ws.iter().map(|x| rm::mulmod(*x, mono % p, p)).collect();
            check!(cj(&mo_p) == wm && cj(&moi_p) == wm, "negacyclic_multiply_mononomial(_inplace)_p ({mono} X^{shift}): component {j} of {k}");
            let wms: Vec<u64> = ws.iter().map(|x| rm::mulmod(*x, monos[j], p)).collect();
            check!(cj(&ms_p) == wms && cj(&msi_p) == wms, "negacyclic_multiply_mononomials(_inplace)_p (coefficient {} X^{shift}): component {j} of {k}", monos[j]);
        }
        for i in 0..pc { for j in 0..k {
            let a = comp(&polys, i, j); let p = c.primes[j];
            let mut fa = a.clone(); ts[j].ntt_negacyclic_harvey(&mut fa);
            check!(comp(&fwd, i, j) == fa, "ntt_ps: polynomial {i} component {j} of {pc}x{k} differs from the single transform");
            let want: Vec<u64> = fa.iter().map(|x| rm::mulmod(*x, *x, p)).collect();
            check!(comp(&dy, i, j) == want, "dyadic_product_ps: polynomial {i} component {j} of {pc} polynomials x {k} moduli is not the pointwise product");
            check!(comp(&dyi, i, j) == want, "dyadic_product_inplace_ps: polynomial {i} component {j} of {pc} polynomials x {k} moduli is not the pointwise product");
            let ws = rm::negacyclic_shift(&a, shift, p);
            check!(comp(&sh, i, j) == ws, "negacyclic_shift_ps by {shift}: polynomial {i} component {j} of {pc}x{k}");
            let wm: Vec<u64> = ws.iter().map(|x| rm::mulmod(*x, mono % p, p)).collect();
            check!(comp(&mo, i, j) == wm, "negacyclic_multiply_mononomial_ps ({mono} X^{shift}): polynomial {i} component {j} of {pc}x{k}");
            check!(comp(&moi, i, j) == wm, "negacyclic_multiply_mononomial_inplace_ps ({mono} X^{shift}): polynomial {i} component {j} of {pc}x{k}");
            check!(comp(&lz, i, j).iter().zip(fa.iter()).all(|(x, w)| *x < 4 * p && x % p == *w), "ntt_lazy_ps: polynomial {i} component {j} of {pc}x{k} not in [0,4q) or not congruent to the transform");
            check!(comp(&ilz, i, j).iter().zip(a.iter()).all(|(x, w)| *x < 2 * p && x % p == *w), "intt_lazy_ps: polynomial {i} component {j} of {pc}x{k} not in [0,2q) or not congruent to the inverse transform");
            let wms: Vec<u64> = ws.iter().map(|x| rm::mulmod(*x, monos[j], p)).collect();
            check!(comp(&ms, i, j) == wms && comp(&msi, i, j) == wms, "negacyclic_multiply_mononomials(_inplace)_ps (coefficient {} X^{shift}): polynomial {i} component {j} of {pc}x{k}", monos[j]);
        } }
    }
    // a modulus for which no primitive 2N-th root exists must be rejected, not panic
    let bad = c.bad_modulus;
    let suitable = rm::is_prime(bad) && (bad - 1) % (2 * n as u64) == 0;
    let r = catch(|| NTTTables::new(c.logn as usize, &Modulus::new(bad)).is_ok());
    match r {
        Err(p) => return fail(format!("NTTTables::new(2^{}, {bad}) panicked: {p}", c.logn)),
        Ok(ok) => {
            if suitable && !ok { return fail(format!("NTTTables::new rejected the NTT-friendly prime {bad}")); }
            if !suitable && ok && rm::is_prime(bad) { return fail(format!("NTTTables::new accepted prime {bad} not congruent to 1 mod 2N")); }
        }
    }
    Verdict::Pass(Info::new(k >= 2).evals(4).label(format!("k={k}")).label_if(1 + (c.bad_modulus % 3) as usize != k, "polynomial count differs from modulus count"))
}

pub fn def() -> PropertyDef {
    PropertyDef {
        id: "C09",
        level: "exploration",
        rule: "exhaustive: all N unit vectors X^j (and (q-1)X^j through the lazy path) for N=2..1024 (thorough 8192) x {smallest NTT prime, 30-bit, 60-bit, 61-bit}; random: degree 2..2^11 (thorough 2^13), NTT primes of 2..61 bits, vectors random / with (q-1) entries / lazy-range maxima, dense or sparse second operand; non-trivial: unit vector index > 0, vector containing q-1, or modulus >= 2^59. distinct = distinct serialized cases.",
        assumptions: vec![
            "oracle: u128 modular arithmetic, Horner evaluation, naive O(N^2) negacyclic product, independently computed minimal primitive root",
            "lazy ranges as documented by the code comments: forward inputs < 4q give outputs < 4q; inverse inputs < 2q give outputs < 2q",
        ],
        subs: vec![
            Sub::enumerate("unit_vectors_exhaustive", unit_cases, unit_oracle),
            Sub::prop("random_vectors", 300_000, 2_000_000, 0.3, vec_case, vec_oracle),
            Sub::prop("multi_modulus_wrappers", 150_000, 1_000_000, 0.3, |_| poly_case(), poly_oracle),
        ],
    }
}
