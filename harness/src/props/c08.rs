//! C08 — modular and multi-word integer primitives are exact on their whole domain.
//! Oracle: u128 arithmetic (refmath) and the in-house BigU; nothing from the library.
use crate::bigint::BigU;
use crate::gen::*;
use crate::refmath as rm;
use crate::runner::*;
use heathcliff::util as hu;
use heathcliff::Modulus;
use proptest::prelude::*;
use serde::{Deserialize, Serialize};

macro_rules! t {
    ($f:expr, $key:expr, $got:expr, $want:expr, $($ctx:tt)*) => {{
        match catch(|| $got) {
            Ok(g) => { let w = $want; if g != w { $f.add(concat!("C08/", $key), format!("{}: got {:?}, want {:?} ({})", $key, g, w, format!($($ctx)*))); } }
            Err(p) => $f.add(concat!("C08/", $key), format!("{}: panicked: {} ({})", $key, p, format!($($ctx)*))),
        }
    }};
}

// ------------------------------------------------------------------------------------------------
// single-word modular primitives

#[derive(Clone, Debug, Serialize, Deserialize)]
pub struct ModCase {
    pub q: u64,
    /// operands below q
    pub a: u64, pub b: u64, pub c: u64,
    /// arbitrary 64-bit operands
    pub x: u64, pub y: u64, pub z: u64,
    pub e: u64,
    pub v1: Vec<u64>, pub v2: Vec<u64>,
    pub words: Vec<u64>,
}

fn mod_case() -> BoxedStrategy<ModCase> {
    (modulus_value(2, 61), any::<[u8; 8]>(), any::<[u64; 8]>(),
     proptest::collection::vec((any::<u8>(), any::<u64>(), any::<u8>(), any::<u64>()), 0..40), limbs_var(1, 8))
        .prop_map(|(q, sel, r, vecs, words)| mod_from_raw(q, sel, r, vecs, words)).boxed()
}
fn mod_from_raw(q: u64, sel: [u8; 8], r: [u64; 8], vecs: Vec<(u8, u64, u8, u64)>, words: Vec<u64>) -> ModCase {
    let e = match sel[6] % 8 { 0 => 0, 1 => 1, 2 => 2, 3 => q - 1, 4 => q, 5 => u64::MAX, _ => r[6] >> (r[7] % 64) };
    // dot product operands: below q (the way the library uses it) or arbitrary, truncated so that the sum fits 128 bits
    let mut v1 = vec![]; let mut v2 = vec![]; let mut acc: u128 = 0;
    let below = sel[7] % 4 != 0;
    for (s1, r1, s2, r2) in vecs {
        let (p, w) = if below { (operand_below(s1, r1, q), operand_below(s2, r2, q)) } else { (operand_any(s1, r1, q), operand_any(s2, r2, q)) };
        match acc.checked_add(p as u128 * w as u128) { Some(n) => { acc = n; v1.push(p); v2.push(w); } None => break }
    }
    ModCase { q, a: operand_below(sel[0], r[0], q), b: operand_below(sel[1], r[1], q), c: operand_below(sel[2], r[2], q),
        x: operand_any(sel[3], r[3], q), y: operand_any(sel[4], r[4], q), z: operand_any(sel[5], r[5], q), e, v1, v2, words }
}
/// fuzz decoder (engine E3): the same primitive choices drawn from fuzzer bytes, mapped by `mod_from_raw`
fn mod_decode(src: &mut crate::fuzz::Src) -> Option<ModCase> {
    let q = modulus_decode(src, 2, 61);
    let mut sel = [0u8; 8]; for x in sel.iter_mut() { *x = src.u8(); }
    let mut r = [0u64; 8]; for x in r.iter_mut() { *x = src.u64(); }
    let nv = src.below(40) as usize;
    let vecs = (0..nv).map(|_| (src.u8(), src.u64(), src.u8(), src.u64())).collect();
    let len = src.incl(1, 8) as usize;
    let words = limbs_decode(src, len);
    Some(mod_from_raw(q, sel, r, vecs, words))
}

fn limbs_var(lo: usize, hi: usize) -> BoxedStrategy<Vec<u64>> { (lo..=hi).prop_flat_map(limbs).boxed() }

/// a result buffer that was used before: every routine has to overwrite all of its result words
fn junk(len: usize) -> Vec<u64> { (0..len as u64).map(|i| (i + 3).wrapping_mul(0xD6E8_FEB8_6659_FD93) | 1).collect() }

fn u128w(x: u128) -> [u64; 2] { [x as u64, (x >> 64) as u64] }

pub fn mod_oracle(c: &ModCase) -> Verdict {
    let mut f = Fails::new();
    let q = c.q;
    let m = match catch(|| Modulus::new(q)) { Ok(m) => m, Err(p) => return fail_key("C08/Modulus::new", format!("Modulus::new({q}) panicked: {p}")) };
    let (a, b, cc, x, y, z, e) = (c.a, c.b, c.c, c.x, c.y, c.z, c.e);
    let ctx = || format!("q={q} a={a} b={b} c={cc} x={x} y={y} z={z} e={e}");
    let mut n = 0u64;
    // Modulus precomputation: const_ratio = floor(2^128/q) and the remainder
    let two128 = BigU::pow2(128);
    let (cq, cr) = two128.divrem(&BigU::from_u64(q));
    let cql = cq.low_limbs(2);
    t!(f, "Modulus::const_ratio", *m.const_ratio(), [cql[0], cql[1], cr.to_u64().unwrap()], "{}", ctx());
    t!(f, "Modulus::bit_count", m.bit_count(), 64 - q.leading_zeros() as usize, "{}", ctx());
    t!(f, "Modulus::is_prime", m.is_prime(), rm::is_prime(q), "{}", ctx());
    t!(f, "Modulus::value", m.value(), q, "{}", ctx());
    n += 4;
    // operands below q
    t!(f, "add_u64_mod", hu::add_u64_mod(a, b, &m), rm::addmod(a, b, q), "{}", ctx());
    t!(f, "sub_u64_mod", hu::sub_u64_mod(a, b, &m), rm::submod(a, b, q), "{}", ctx());
    t!(f, "negate_u64_mod", hu::negate_u64_mod(a, &m), rm::negmod(a, q), "{}", ctx());
    t!(f, "negate_u64_mod", hu::negate_u64_mod(q, &m), 0, "operand = q; {}", ctx());
    t!(f, "decrement_u64_mod", hu::decrement_u64_mod(a, &m), rm::submod(a, 1, q), "{}", ctx());
    // increment: documented domain operand <= 2q-2
    let inc_op = x % (2 * q - 1);
    t!(f, "increment_u64_mod", hu::increment_u64_mod(inc_op, &m), ((inc_op as u128 + 1) % q as u128) as u64, "operand={inc_op}; {}", ctx());
    n += 6;
    if q & 1 == 1 {
        // halve: the unique r < q with 2r = a (mod q)
        let want = rm::mulmod(a, (q + 1) / 2, q);
        t!(f, "div2_u64_mod", hu::div2_u64_mod(a, &m), want, "{}", ctx());
        n += 1;
    }
    // reductions of arbitrary 64/128-bit values
    t!(f, "barrett_reduce_u64", hu::barrett_reduce_u64(x, &m), x % q, "{}", ctx());
    t!(f, "Modulus::reduce", m.reduce(y), y % q, "{}", ctx());
    let wide = (x as u128) << 64 | y as u128;
    t!(f, "barrett_reduce_u128", hu::barrett_reduce_u128(&u128w(wide), &m), (wide % q as u128) as u64, "input={wide}; {}", ctx());
    t!(f, "Modulus::reduce_u128", m.reduce_u128(wide), (wide % q as u128) as u64, "input={wide}; {}", ctx());
    t!(f, "multiply_u64_mod", hu::multiply_u64_mod(x, y, &m), rm::mulmod(x, y, q), "{}", ctx());
    t!(f, "multiply_u64_mod", hu::multiply_u64_mod(a, b, &m), rm::mulmod(a, b, q), "{}", ctx());
    let want_madd = ((x as u128 * y as u128 % q as u128 + z as u128 % q as u128) % q as u128) as u64;
    t!(f, "multiply_add_u64_mod", hu::multiply_add_u64_mod(x, y, z, &m), want_madd, "{}", ctx());
    n += 7;
    // precomputed operand (y < q), x arbitrary
    match catch(|| hu::MultiplyU64ModOperand::new(b, &m)) {
        Err(p) => f.add("C08/MultiplyU64ModOperand::new", format!("panicked: {p} ({})", ctx())),
        Ok(op) => {
            t!(f, "MultiplyU64ModOperand::quotient", op.quotient, (((b as u128) << 64) / q as u128) as u64, "{}", ctx());
            t!(f, "MultiplyU64ModOperand::operand", op.operand, b, "{}", ctx());
            t!(f, "multiply_u64operand_mod", hu::multiply_u64operand_mod(x, &op, &m), rm::mulmod(x, b, q), "{}", ctx());
            match catch(|| hu::multiply_u64operand_mod_lazy(x, &op, &m)) {
                Err(p) => f.add("C08/multiply_u64operand_mod_lazy", format!("panicked: {p} ({})", ctx())),
                Ok(l) => if l >= 2 * q || l % q != rm::mulmod(x, b, q) { f.add("C08/multiply_u64operand_mod_lazy", format!("multiply_u64operand_mod_lazy: got {l}, want congruent to {} and < 2q ({})", rm::mulmod(x, b, q), ctx())); }
            }
            let want = ((rm::mulmod(x, b, q) as u128 + (z % q) as u128) % q as u128) as u64;
            t!(f, "multiply_u64operand_add_u64_mod", hu::multiply_u64operand_add_u64_mod(x, &op, z, &m), want, "{}", ctx());
            n += 5;
        }
    }
    // exponentiation (base < q), inversion (operand < q), gcd
    t!(f, "exponentiate_u64_mod", hu::exponentiate_u64_mod(a, e, &m), rm::powmod(a, e, q), "{}", ctx());
    {
        let want = if a == 0 { None } else { rm::invmod(a, q) };
        let got = catch(|| { let mut r = 0u64; if hu::try_invert_u64_mod(a, &m, &mut r) { Some(r) } else { None } });
        match got { Ok(g) => if g != want { f.add("C08/try_invert_u64_mod", format!("try_invert_u64_mod: got {g:?}, want {want:?} ({})", ctx())); },
                    Err(p) => f.add("C08/try_invert_u64_mod", format!("panicked: {p} ({})", ctx())) }
        let got = catch(|| { let mut r = 0u64; if hu::try_invert_u64_mod_u64(a, q, &mut r) { Some(r) } else { None } });
        match got { Ok(g) => if g != want { f.add("C08/try_invert_u64_mod_u64", format!("try_invert_u64_mod_u64: got {g:?}, want {want:?} ({})", ctx())); },
                    Err(p) => f.add("C08/try_invert_u64_mod_u64", format!("panicked: {p} ({})", ctx())) }
    }
    let (gx, gy) = (x >> 2, y >> 2); // 62-bit operands: the library's coefficients are i64
    t!(f, "gcd", hu::gcd(gx, gy), rm::gcd(gx, gy), "gcd({gx},{gy})");
    t!(f, "gcd", hu::gcd(a, q), rm::gcd(a, q), "{}", ctx());
    t!(f, "are_coprime", hu::are_coprime(a, q), rm::gcd(a, q) <= 1, "{}", ctx());
    match catch(|| hu::xgcd(gx, gy)) {
        Err(p) => f.add("C08/xgcd", format!("xgcd({gx},{gy}) panicked: {p}")),
        Ok((g, s, t_)) => {
            let lhs = s as i128 * gx as i128 + t_ as i128 * gy as i128;
            if g != rm::gcd(gx, gy) || lhs != g as i128 { f.add("C08/xgcd", format!("xgcd({gx},{gy}) = ({g},{s},{t_}): Bezout identity gives {lhs}, gcd is {}", rm::gcd(gx, gy))); }
        }
    }
    n += 7;
    // dot product, sum of products < 2^128
    if c.v1.len() == c.v2.len() {
        let mut acc: u128 = 0; for i in 0..c.v1.len() { acc += c.v1[i] as u128 * c.v2[i] as u128; }
        t!(f, "dot_product_mod", hu::dot_product_mod(&c.v1, &c.v2, &m), (acc % q as u128) as u64, "v1={:?} v2={:?} q={q}", c.v1, c.v2);
        n += 1;
    }
    // multi-word value mod q
    if !c.words.is_empty() {
        let want = BigU::from_limbs(&c.words).rem_u64(q);
        t!(f, "modulo_uint", hu::modulo_uint(&c.words, &m), want, "value={:?} q={q}", c.words);
        let mut w = c.words.clone();
        match catch(|| { hu::modulo_uint_inplace(&mut w, &m); w }) {
            Ok(w) => { let mut wantv = vec![0u64; w.len()]; wantv[0] = want; if w != wantv { f.add("C08/modulo_uint_inplace", format!("modulo_uint_inplace({:?}, {q}) = {:?}, want {:?}", c.words, w, wantv)); } }
            Err(p) => f.add("C08/modulo_uint_inplace", format!("modulo_uint_inplace({:?}, {q}) panicked: {p}", c.words)),
        }
        // divide_uint_mod_inplace: numerator = numerator mod q (word 0), quotient = floor(numerator / q)
        let len = c.words.len();
        let (bq, br) = BigU::from_limbs(&c.words).divrem(&BigU::from_u64(q));
        let mut num = c.words.clone(); let mut quo = junk(len);
        match catch(|| { hu::divide_uint_mod_inplace(&mut num, &m, &mut quo); (num, quo) }) {
            Ok((num, quo)) => {
                if num[0] != br.to_u64().unwrap() || quo != bq.to_limbs(len) {
                    f.add(format!("C08/divide_uint_mod_inplace/len={}", len.min(3)), format!("divide_uint_mod_inplace({:?}, {q}): remainder word {} quotient {:?}; want remainder {} quotient {:?}", c.words, num[0], quo, br.to_u64().unwrap(), bq.to_limbs(len)));
                }
            }
            Err(p) => f.add(format!("C08/divide_uint_mod_inplace/len={}", len.min(3)), format!("divide_uint_mod_inplace({:?}, {q}) panicked: {p}", c.words)),
        }
        n += 3;
    }
    let nontrivial = q >> 59 != 0 || x >> 63 == 1 || y >> 63 == 1 || c.words.iter().any(|w| w >> 63 == 1);
    f.verdict(Info::new(nontrivial).evals(n).label_if(q >> 59 != 0, "q>=2^59").label_if(q.is_power_of_two(), "q=2^k").label_if(rm::is_prime(q), "q prime")
        .label_if(q & 1 == 0, "q even").label_if(c.v1.len() >= 16, "dot>=16 terms").label_if(c.words.len() >= 3, "words>=3"))
}

// exhaustive: every modulus below 2^7, every operand pair, every two-operand function
#[derive(Clone, Debug, Serialize, Deserialize)]
pub struct SmallQ { pub q: u64 }

fn small_oracle(c: &SmallQ) -> Verdict {
    let q = c.q; let m = Modulus::new(q);
    let mut n = 0u64;
    for a in 0..q {
        let opa = hu::MultiplyU64ModOperand::new(a, &m);
        check_eq!(opa.quotient, (((a as u128) << 64) / q as u128) as u64, "quotient q={q} a={a}");
        check_eq!(hu::negate_u64_mod(a, &m), rm::negmod(a, q), "negate q={q} a={a}");
        check_eq!(hu::decrement_u64_mod(a, &m), rm::submod(a, 1, q), "decrement q={q} a={a}");
        check_eq!(hu::increment_u64_mod(a, &m), (a + 1) % q, "increment q={q} a={a}");
        check_eq!(hu::increment_u64_mod(a + q - 1, &m), (a + q) % q, "increment q={q} a={}", a + q - 1);
        if q & 1 == 1 { let r = hu::div2_u64_mod(a, &m); check!(r < q && (2 * r) % q == a, "div2 q={q} a={a} got {r}"); }
        let mut inv = 0u64;
        let ok = hu::try_invert_u64_mod(a, &m, &mut inv);
        check_eq!(if ok { Some(inv) } else { None }, if a == 0 { None } else { rm::invmod(a, q) }, "invert q={q} a={a}");
        n += 7;
        for b in 0..q {
            check_eq!(hu::add_u64_mod(a, b, &m), (a + b) % q, "add q={q} a={a} b={b}");
            check_eq!(hu::sub_u64_mod(a, b, &m), (a + q - b) % q, "sub q={q} a={a} b={b}");
            check_eq!(hu::multiply_u64_mod(a, b, &m), (a * b) % q, "mul q={q} a={a} b={b}");
            check_eq!(hu::multiply_u64operand_mod(b, &opa, &m), (a * b) % q, "mulop q={q} a={a} b={b}");
            let l = hu::multiply_u64operand_mod_lazy(b, &opa, &m);
            check!(l < 2 * q && l % q == (a * b) % q, "mulop lazy q={q} a={a} b={b} got {l}");
            check_eq!(hu::exponentiate_u64_mod(a, b, &m), rm::powmod(a, b, q), "pow q={q} a={a} e={b}");
            check_eq!(hu::gcd(a, b), rm::gcd(a, b), "gcd a={a} b={b}");
            check_eq!(hu::barrett_reduce_u64(a * q + b, &m), b, "barrett64 q={q} v={}", a * q + b);
            check_eq!(hu::barrett_reduce_u128(&u128w((a as u128) << 64 | b as u128), &m), ((((a as u128) << 64) | b as u128) % q as u128) as u64, "barrett128 q={q} hi={a} lo={b}");
            check_eq!(hu::multiply_add_u64_mod(a, b, a ^ b, &m), (a * b + (a ^ b)) % q, "madd q={q} a={a} b={b}");
            check_eq!(hu::dot_product_mod(&[a, b, a], &[b, b, a], &m), (a * b + b * b + a * a) % q, "dot q={q} a={a} b={b}");
            n += 11;
        }
    }
    Verdict::Pass(Info::new(true).evals(n))
}

// ------------------------------------------------------------------------------------------------
// multi-word helpers

#[derive(Clone, Copy, Debug, Serialize, Deserialize, PartialEq, Eq)]
pub enum UOp {
    Add, AddCarry, AddU64, Sub, SubBorrow, SubU64, IncDec, Negate, ShiftLeft, ShiftRight, Shift128, Shift192,
    HalfRoundUp, Bitwise, MulWord, MulWordInplace, Mul, MulMany, Divide, Divide128, Divide192, Compare, Counts,
    IncDecMod, NegateMod, Div2Mod, AddMod, SubMod, SetBit, ScalarCarry, Naf,
}
const UOPS: [UOp; 31] = [UOp::Add, UOp::AddCarry, UOp::AddU64, UOp::Sub, UOp::SubBorrow, UOp::SubU64, UOp::IncDec, UOp::Negate, UOp::ShiftLeft,
    UOp::ShiftRight, UOp::Shift128, UOp::Shift192, UOp::HalfRoundUp, UOp::Bitwise, UOp::MulWord, UOp::MulWordInplace, UOp::Mul, UOp::MulMany,
    UOp::Divide, UOp::Divide128, UOp::Divide192, UOp::Compare, UOp::Counts, UOp::IncDecMod, UOp::NegateMod, UOp::Div2Mod, UOp::AddMod,
    UOp::SubMod, UOp::SetBit, UOp::ScalarCarry, UOp::Naf];

#[derive(Clone, Debug, Serialize, Deserialize)]
pub struct UintCase {
    pub op: UOp,
    pub a: Vec<u64>,
    pub b: Vec<u64>,
    /// a third same-length value used as modulus for the *_uint_mod family
    pub m: Vec<u64>,
    pub w: u64,
    pub shift: usize,
    pub rlen: usize,
    pub carry: u8,
}

fn uint_case() -> BoxedStrategy<UintCase> {
    (0usize..UOPS.len(), 1usize..=8).prop_flat_map(|(opi, len)| {
        (Just(UOPS[opi]), limbs(len), limbs(len), limbs(len), limb(), any::<u16>(), 1usize..=10, 0u8..2)
    }).prop_map(|(op, a, b, m, w, sh, rlen, carry)| {
        let len = a.len();
        UintCase { op, a, b, m, w, shift: pick_idx(sh, 64 * len), rlen, carry }
    }).boxed()
}
/// fuzz decoder (engine E3) for `uint_case`
fn uint_decode(src: &mut crate::fuzz::Src) -> Option<UintCase> {
    let op = UOPS[src.below(UOPS.len() as u64) as usize]; let len = src.incl(1, 8) as usize;
    let (a, b, m) = (limbs_decode(src, len), limbs_decode(src, len), limbs_decode(src, len));
    let w = limb_decode(src); let sh = src.u16(); let rlen = src.incl(1, 10) as usize; let carry = src.below(2) as u8;
    Some(UintCase { op, a, b, m, w, shift: pick_idx(sh, 64 * len), rlen, carry })
}

fn bu(v: &[u64]) -> BigU { BigU::from_limbs(v) }
fn modpow(n: usize) -> BigU { BigU::pow2(64 * n) }

pub fn uint_oracle(c: &UintCase) -> Verdict {
    let mut f = Fails::new();
    let len = c.a.len();
    if len == 0 || c.b.len() != len || c.m.len() != len { return fail("malformed case (lengths)"); }
    let (a, b) = (&c.a, &c.b);
    let (ba, bb) = (bu(a), bu(b));
    let two = modpow(len);
    let ctx = || format!("a={a:x?} b={b:x?} w={:#x} shift={} rlen={} carry={}", c.w, c.shift, c.rlen, c.carry);
    let mut n = 0u64;
    match c.op {
        UOp::Add => {
            let s = ba.add(&bb);
            let want = (s.low_limbs(len), s.bit(64 * len) as u8);
            t!(f, "add_uint", { let mut r = junk(len); let cy = hu::add_uint(a, b, &mut r); (r, cy) }, want.clone(), "{}", ctx());
            t!(f, "add_uint_inplace", { let mut r = a.clone(); let cy = hu::add_uint_inplace(&mut r, b); (r, cy) }, want.clone(), "{}", ctx());
            if len == 2 {
                t!(f, "add_u128", { let mut r = junk(2); let cy = hu::add_u128(a, b, &mut r); (r, cy) }, want.clone(), "{}", ctx());
                t!(f, "add_u128_inplace", { let mut r = a.clone(); let cy = hu::add_u128_inplace(&mut r, b); (r, cy) }, want.clone(), "{}", ctx());
            }
            n += 2;
        }
        UOp::AddCarry => {
            // operands may be shorter than the result (missing words are zero)
            let rl = c.rlen.max(len);
            let bshort = &b[..(c.shift % len) + 1];
            let s = ba.add(&bu(bshort)).add_u64(c.carry as u64);
            let want = (s.low_limbs(rl), s.bit(64 * rl) as u8);
            t!(f, "add_uint_carry", { let mut r = junk(rl); let cy = hu::add_uint_carry(a, bshort, c.carry, &mut r); (r, cy) }, want, "bshort={bshort:x?} {}", ctx());
            let s = ba.add(&bb).add_u64(c.carry as u64);
            t!(f, "add_uint_carry_inplace", { let mut r = a.clone(); let cy = hu::add_uint_carry_inplace(&mut r, b, c.carry); (r, cy) }, (s.low_limbs(len), s.bit(64 * len) as u8), "{}", ctx());
            n += 2;
        }
        UOp::AddU64 => {
            let s = ba.add_u64(c.w);
            let want = (s.low_limbs(len), s.bit(64 * len) as u8);
            t!(f, "add_uint_u64", { let mut r = junk(len); let cy = hu::add_uint_u64(a, c.w, &mut r); (r, cy) }, want.clone(), "{}", ctx());
            t!(f, "add_uint_u64_inplace", { let mut r = a.clone(); let cy = hu::add_uint_u64_inplace(&mut r, c.w); (r, cy) }, want, "{}", ctx());
            n += 2;
        }
        UOp::Sub | UOp::SubBorrow => {
            let bor = if c.op == UOp::SubBorrow { c.carry } else { 0 };
            let sub = bb.add_u64(bor as u64);
            let (want, wb) = if ba >= sub { (ba.sub(&sub).low_limbs(len), 0u8) } else { (two.add(&ba).sub(&sub).low_limbs(len), 1u8) };
            if c.op == UOp::Sub {
                t!(f, "sub_uint", { let mut r = junk(len); let x = hu::sub_uint(a, b, &mut r); (r, x) }, (want.clone(), wb), "{}", ctx());
                t!(f, "sub_uint_inplace", { let mut r = a.clone(); let x = hu::sub_uint_inplace(&mut r, b); (r, x) }, (want.clone(), wb), "{}", ctx());
            } else {
                t!(f, "sub_uint_borrow", { let mut r = junk(len); let x = hu::sub_uint_borrow(a, b, bor, &mut r); (r, x) }, (want.clone(), wb), "{}", ctx());
                t!(f, "sub_uint_borrow_inplace", { let mut r = a.clone(); let x = hu::sub_uint_borrow_inplace(&mut r, b, bor); (r, x) }, (want.clone(), wb), "{}", ctx());
            }
            n += 2;
        }
        UOp::SubU64 => {
            let sub = BigU::from_u64(c.w);
            let (want, wb) = if ba >= sub { (ba.sub(&sub).low_limbs(len), 0u8) } else { (two.add(&ba).sub(&sub).low_limbs(len), 1u8) };
            t!(f, "sub_uint_u64", { let mut r = junk(len); let x = hu::sub_uint_u64(a, c.w, &mut r); (r, x) }, (want.clone(), wb), "{}", ctx());
            t!(f, "sub_uint_u64_inplace", { let mut r = a.clone(); let x = hu::sub_uint_u64_inplace(&mut r, c.w); (r, x) }, (want, wb), "{}", ctx());
            n += 2;
        }
        UOp::IncDec => {
            let s = ba.add_u64(1);
            t!(f, "increment_uint", { let mut r = junk(len); let x = hu::increment_uint(a, &mut r); (r, x) }, (s.low_limbs(len), s.bit(64 * len) as u8), "{}", ctx());
            t!(f, "increment_uint_inplace", { let mut r = a.clone(); let x = hu::increment_uint_inplace(&mut r); (r, x) }, (s.low_limbs(len), s.bit(64 * len) as u8), "{}", ctx());
            let (want, wb) = if ba.is_zero() { (two.sub(&BigU::one()).low_limbs(len), 1u8) } else { (ba.sub(&BigU::one()).low_limbs(len), 0u8) };
            t!(f, "decrement_uint", { let mut r = junk(len); let x = hu::decrement_uint(a, &mut r); (r, x) }, (want.clone(), wb), "{}", ctx());
            t!(f, "decrement_uint_inplace", { let mut r = a.clone(); let x = hu::decrement_uint_inplace(&mut r); (r, x) }, (want, wb), "{}", ctx());
            n += 4;
        }
        UOp::Negate => {
            let want = if ba.is_zero() { vec![0u64; len] } else { two.sub(&ba).low_limbs(len) };
            t!(f, "negate_uint", { let mut r = junk(len); hu::negate_uint(a, &mut r); r }, want.clone(), "{}", ctx());
            t!(f, "negate_uint_inplace", { let mut r = a.clone(); hu::negate_uint_inplace(&mut r); r }, want, "{}", ctx());
            n += 2;
        }
        UOp::ShiftLeft => {
            let want = ba.shl(c.shift).low_limbs(len);
            t!(f, "left_shift_uint", { let mut r = junk(len); hu::left_shift_uint(a, c.shift, len, &mut r); r }, want.clone(), "{}", ctx());
            t!(f, "left_shift_uint_inplace", { let mut r = a.clone(); hu::left_shift_uint_inplace(&mut r, c.shift, len); r }, want, "{}", ctx());
            n += 2;
        }
        UOp::ShiftRight => {
            let want = ba.shr(c.shift).low_limbs(len);
            t!(f, "right_shift_uint", { let mut r = junk(len); hu::right_shift_uint(a, c.shift, len, &mut r); r }, want.clone(), "{}", ctx());
            t!(f, "right_shift_uint_inplace", { let mut r = a.clone(); hu::right_shift_uint_inplace(&mut r, c.shift, len); r }, want, "{}", ctx());
            n += 2;
        }
        UOp::Shift128 => {
            let v = [a[0], b[0]]; let s = (c.shift + c.rlen * 13) % 128;
            let bv = bu(&v);
            t!(f, "left_shift_u128", { let mut r = junk(2); hu::left_shift_u128(&v, s, &mut r); r }, bv.shl(s).low_limbs(2), "v={v:x?} s={s}");
            t!(f, "left_shift_u128_inplace", { let mut r = v.to_vec(); hu::left_shift_u128_inplace(&mut r, s); r }, bv.shl(s).low_limbs(2), "v={v:x?} s={s}");
            t!(f, "right_shift_u128", { let mut r = junk(2); hu::right_shift_u128(&v, s, &mut r); r }, bv.shr(s).low_limbs(2), "v={v:x?} s={s}");
            t!(f, "right_shift_u128_inplace", { let mut r = v.to_vec(); hu::right_shift_u128_inplace(&mut r, s); r }, bv.shr(s).low_limbs(2), "v={v:x?} s={s}");
            n += 4;
        }
        UOp::Shift192 => {
            let v = [a[0], b[0], c.m[0]]; let s = (c.shift + c.rlen * 29) % 192;
            let bv = bu(&v);
            t!(f, "left_shift_u192", { let mut r = junk(3); hu::left_shift_u192(&v, s, &mut r); r }, bv.shl(s).low_limbs(3), "v={v:x?} s={s}");
            t!(f, "left_shift_u192_inplace", { let mut r = v.to_vec(); hu::left_shift_u192_inplace(&mut r, s); r }, bv.shl(s).low_limbs(3), "v={v:x?} s={s}");
            // destination pre-filled with unrelated data: the result must not depend on it
            t!(f, "right_shift_u192", { let mut r = vec![c.w, !c.w, c.w ^ 0x5555]; hu::right_shift_u192(&v, s, &mut r); r }, bv.shr(s).low_limbs(3), "v={v:x?} s={s} (destination pre-filled)");
            t!(f, "right_shift_u192_inplace", { let mut r = v.to_vec(); hu::right_shift_u192_inplace(&mut r, s); r }, bv.shr(s).low_limbs(3), "v={v:x?} s={s}");
            n += 4;
        }
        UOp::HalfRoundUp => {
            let want = ba.shr(1).add_u64(ba.is_odd() as u64).low_limbs(len);
            t!(f, "half_round_up_uint", { let mut r = junk(len); hu::half_round_up_uint(a, &mut r); r }, want.clone(), "{}", ctx());
            t!(f, "half_round_up_uint_inplace", { let mut r = a.clone(); hu::half_round_up_uint_inplace(&mut r); r }, want, "{}", ctx());
            n += 2;
        }
        UOp::Bitwise => {
            let z = |g: fn(u64, u64) -> u64| -> Vec<u64> { a.iter().zip(b.iter()).map(|(x, y)| g(*x, *y)).collect() };
            t!(f, "and_uint", { let mut r = junk(len); hu::and_uint(a, b, &mut r); r }, z(|x, y| x & y), "{}", ctx());
            t!(f, "or_uint", { let mut r = junk(len); hu::or_uint(a, b, &mut r); r }, z(|x, y| x | y), "{}", ctx());
            t!(f, "xor_uint", { let mut r = junk(len); hu::xor_uint(a, b, &mut r); r }, z(|x, y| x ^ y), "{}", ctx());
            t!(f, "not_uint", { let mut r = junk(len); hu::not_uint(a, &mut r); r }, z(|x, _| !x), "{}", ctx());
            t!(f, "and_uint_inplace", { let mut r = a.clone(); hu::and_uint_inplace(&mut r, b); r }, z(|x, y| x & y), "{}", ctx());
            t!(f, "or_uint_inplace", { let mut r = a.clone(); hu::or_uint_inplace(&mut r, b); r }, z(|x, y| x | y), "{}", ctx());
            t!(f, "xor_uint_inplace", { let mut r = a.clone(); hu::xor_uint_inplace(&mut r, b); r }, z(|x, y| x ^ y), "{}", ctx());
            t!(f, "not_uint_inplace", { let mut r = a.clone(); hu::not_uint_inplace(&mut r); r }, z(|x, _| !x), "{}", ctx());
            n += 8;
        }
        UOp::MulWord => {
            let want = ba.mul_u64(c.w).low_limbs(c.rlen);
            t!(f, "multiply_uint_u64", { let mut r = vec![0xdeadu64; c.rlen]; hu::multiply_uint_u64(a, c.w, &mut r); r }, want, "{}", ctx());
            let p = a[0] as u128 * c.w as u128;
            t!(f, "multiply_u64_u64", { let mut r = junk(2); hu::multiply_u64_u64(a[0], c.w, &mut r); r }, vec![p as u64, (p >> 64) as u64], "{}", ctx());
            t!(f, "multiply_u64_high_word", { let mut r = 0u64; hu::multiply_u64_high_word(a[0], c.w, &mut r); r }, (p >> 64) as u64, "{}", ctx());
            n += 3;
        }
        UOp::MulWordInplace => {
            let want = ba.mul_u64(c.w).low_limbs(len);
            t!(f, "multiply_uint_u64_inplace", { let mut r = a.clone(); hu::multiply_uint_u64_inplace(&mut r, c.w); r }, want, "{}", ctx());
            n += 1;
        }
        UOp::Mul => {
            let want = ba.mul(&bb).low_limbs(c.rlen);
            let key = if c.rlen == 1 { "multiply_uint/rlen=1" } else { "multiply_uint" };
            match catch(|| { let mut r = vec![0xdeadu64; c.rlen]; hu::multiply_uint(a, b, &mut r); r }) {
                Ok(g) => if g != want { f.add(format!("C08/{key}"), format!("multiply_uint: got {g:x?}, want {want:x?} ({})", ctx())); },
                Err(p) => f.add(format!("C08/{key}"), format!("multiply_uint panicked: {p} ({})", ctx())),
            }
            n += 1;
        }
        UOp::MulMany => {
            let k = c.rlen.min(len).max(1);
            let ops = &a[..k];
            t!(f, "multiply_many_u64", { let mut r = vec![0xdeadu64; k]; hu::multiply_many_u64(ops, &mut r); r }, BigU::product(ops).to_limbs(k), "operands={ops:x?}");
            n += 1;
        }
        UOp::Divide => {
            if !bb.is_zero() {
                let (q, r) = ba.divrem(&bb);
                t!(f, "divide_uint_inplace", { let mut nu = a.clone(); let mut qu = vec![0xdeadu64; len]; hu::divide_uint_inplace(&mut nu, b, &mut qu); (qu, nu) }, (q.to_limbs(len), r.to_limbs(len)), "{}", ctx());
                t!(f, "divide_uint", { let mut qu = vec![0xdeadu64; len]; let mut re = vec![0xdeadu64; len]; hu::divide_uint(a, b, &mut qu, &mut re); (qu, re) }, (q.to_limbs(len), r.to_limbs(len)), "{}", ctx());
                n += 2;
            }
            // small denominators (the common use: a multi-word value divided by a one-word value held in a same-length buffer)
            let mut d = vec![0u64; len]; d[0] = c.w | 1;
            let (q, r) = ba.divrem(&bu(&d));
            t!(f, "divide_uint_inplace", { let mut nu = a.clone(); let mut qu = vec![0xdeadu64; len]; hu::divide_uint_inplace(&mut nu, &d, &mut qu); (qu, nu) }, (q.to_limbs(len), r.to_limbs(len)), "den={d:x?} {}", ctx());
            n += 1;
        }
        UOp::Divide128 => {
            let v = [a[0], b[0]]; let d = c.w.max(1);
            let (q, r) = bu(&v).divrem(&BigU::from_u64(d));
            t!(f, "divide_u128_u64_inplace", { let mut nu = v.to_vec(); let mut qu = vec![0xdeadu64; 2]; hu::divide_u128_u64_inplace(&mut nu, d, &mut qu); (qu, nu) }, (q.to_limbs(2), r.to_limbs(2)), "v={v:x?} d={d:#x}");
            n += 1;
        }
        UOp::Divide192 => {
            let v = [a[0], b[0], c.m[0]]; let d = c.w.max(1);
            let (q, r) = bu(&v).divrem(&BigU::from_u64(d));
            t!(f, "divide_u192_u64_inplace", { let mut nu = v.to_vec(); let mut qu = vec![0xdeadu64; 3]; hu::divide_u192_u64_inplace(&mut nu, d, &mut qu); (qu, nu) }, (q.to_limbs(3), r.to_limbs(3)), "v={v:x?} d={d:#x}");
            n += 1;
        }
        UOp::Compare => {
            // lengths may differ
            let bs = &b[..(c.shift % len) + 1];
            let bbs = bu(bs);
            t!(f, "compare_uint", hu::compare_uint(a, bs), ba.cmp(&bbs), "bs={bs:x?} {}", ctx());
            t!(f, "compare_uint", hu::compare_uint(bs, a), bbs.cmp(&ba), "bs={bs:x?} {}", ctx());
            t!(f, "compare_uint", hu::compare_uint(a, b), ba.cmp(&bb), "{}", ctx());
            t!(f, "is_greater_than_uint", hu::is_greater_than_uint(a, b), ba > bb, "{}", ctx());
            t!(f, "is_greater_than_or_equal_uint", hu::is_greater_than_or_equal_uint(a, b), ba >= bb, "{}", ctx());
            t!(f, "is_less_than_uint", hu::is_less_than_uint(a, b), ba < bb, "{}", ctx());
            t!(f, "is_less_than_or_equal_uint", hu::is_less_than_or_equal_uint(a, b), ba <= bb, "{}", ctx());
            t!(f, "is_equal_uint", hu::is_equal_uint(a, b), ba == bb, "{}", ctx());
            t!(f, "is_equal_uint", hu::is_equal_uint(a, a), true, "{}", ctx());
            n += 9;
        }
        UOp::Counts => {
            t!(f, "get_significant_bit_count_uint", hu::get_significant_bit_count_uint(a), ba.bits(), "{}", ctx());
            t!(f, "get_significant_uint64_count_uint", hu::get_significant_uint64_count_uint(a), ba.0.len(), "{}", ctx());
            t!(f, "get_nonzero_uint64_count_uint", hu::get_nonzero_uint64_count_uint(a), a.iter().filter(|x| **x != 0).count(), "{}", ctx());
            t!(f, "get_significant_bit_count", hu::get_significant_bit_count(c.w), 64 - c.w.leading_zeros() as usize, "{}", ctx());
            t!(f, "get_power_of_two", hu::get_power_of_two(c.w), if c.w.is_power_of_two() { c.w.trailing_zeros() as isize } else { -1 }, "{}", ctx());
            t!(f, "is_zero_uint", hu::is_zero_uint(a), ba.is_zero(), "{}", ctx());
            let bc = c.shift % 65;
            let naive64 = { let mut r = 0u64; for i in 0..bc { if (c.w >> i) & 1 == 1 { r |= 1 << (bc - 1 - i); } } r };
            t!(f, "reverse_bits_u64", hu::reverse_bits_u64(c.w, bc), naive64, "w={:#x} bits={bc}", c.w);
            let bc = c.shift % 33; let w32 = c.w as u32;
            let naive32 = { let mut r = 0u32; for i in 0..bc { if (w32 >> i) & 1 == 1 { r |= 1 << (bc - 1 - i); } } r };
            t!(f, "reverse_bits_u32", hu::reverse_bits_u32(w32, bc), naive32, "w={w32:#x} bits={bc}");
            t!(f, "hamming_weight", hu::hamming_weight(c.w as u8), (c.w as u8).count_ones() as i32, "w={}", c.w as u8);
            n += 9;
        }
        UOp::IncDecMod | UOp::NegateMod | UOp::Div2Mod | UOp::AddMod | UOp::SubMod => {
            // modulus: multi-word, nonzero (odd for div2); operands reduced below it
            let mut mv = c.m.clone();
            if c.op == UOp::Div2Mod { mv[0] |= 1; }
            if bu(&mv).is_zero() { mv[0] = 3; }
            if bu(&mv) == BigU::one() { mv[0] = 3; }
            let bm = bu(&mv);
            let ra = ba.rem(&bm); let rb = bb.rem(&bm);
            let (av, bv) = (ra.to_limbs(len), rb.to_limbs(len));
            let mctx = || format!("a={av:x?} b={bv:x?} modulus={mv:x?}");
            match c.op {
                UOp::IncDecMod => {
                    t!(f, "increment_uint_mod", { let mut r = junk(len); hu::increment_uint_mod(&av, &mv, &mut r); r }, ra.add_u64(1).rem(&bm).to_limbs(len), "{}", mctx());
                    t!(f, "decrement_uint_mod", { let mut r = junk(len); hu::decrement_uint_mod(&av, &mv, &mut r); r }, ra.add(&bm).sub(&BigU::one()).rem(&bm).to_limbs(len), "{}", mctx());
                    n += 2;
                }
                UOp::NegateMod => { t!(f, "negate_uint_mod", { let mut r = junk(len); hu::negate_uint_mod(&av, &mv, &mut r); r }, bm.sub(&ra).rem(&bm).to_limbs(len), "{}", mctx()); n += 1; }
                UOp::Div2Mod => {
                    let want = if ra.is_odd() { ra.add(&bm).shr(1) } else { ra.shr(1) };
                    let carry = ra.is_odd() && ra.add(&bm).bit(64 * len);
                    let key = if carry { "div2_uint_mod/carry" } else { "div2_uint_mod" };
                    match catch(|| { let mut r = junk(len); hu::div2_uint_mod(&av, &mv, &mut r); r }) {
                        Ok(g) => if g != want.to_limbs(len) { f.add(format!("C08/{key}"), format!("div2_uint_mod: got {g:x?}, want {:x?} ({})", want.to_limbs(len), mctx())); },
                        Err(p) => f.add(format!("C08/{key}"), format!("div2_uint_mod panicked: {p} ({})", mctx())),
                    }
                    n += 1;
                }
                UOp::AddMod => {
                    let want = ra.add(&rb).rem(&bm).to_limbs(len);
                    t!(f, "add_uint_mod", { let mut r = junk(len); hu::add_uint_mod(&av, &bv, &mv, &mut r); r }, want.clone(), "{}", mctx());
                    t!(f, "add_uint_mod_inplace", { let mut r = av.clone(); hu::add_uint_mod_inplace(&mut r, &bv, &mv); r }, want, "{}", mctx());
                    n += 2;
                }
                _ => { t!(f, "sub_uint_mod", { let mut r = junk(len); hu::sub_uint_mod(&av, &bv, &mv, &mut r); r }, ra.add(&bm).sub(&rb).rem(&bm).to_limbs(len), "{}", mctx()); n += 1; }
            }
        }
        UOp::SetBit => {
            let bit = c.shift % (64 * len);
            let mut want = a.clone(); want[bit / 64] |= 1u64 << (bit % 64);
            let key = if bit % 64 >= 31 { "set_bit_uint/bit>=31" } else { "set_bit_uint" };
            match catch(|| { let mut r = a.clone(); hu::set_bit_uint(&mut r, bit); r }) {
                Ok(g) => if g != want { f.add(format!("C08/{key}"), format!("set_bit_uint(bit {bit}): got {g:x?}, want {want:x?} ({})", ctx())); },
                Err(p) => f.add(format!("C08/{key}"), format!("set_bit_uint(bit {bit}) panicked: {p} ({})", ctx())),
            }
            t!(f, "set_uint", { let mut r = vec![7u64; len]; hu::set_uint(a, len, &mut r); r }, a.clone(), "{}", ctx());
            t!(f, "set_zero_uint", { let mut r = a.clone(); hu::set_zero_uint(&mut r); r }, vec![0u64; len], "{}", ctx());
            n += 3;
        }
        UOp::ScalarCarry => {
            let (x, y, cy) = (a[0], b[0], c.carry);
            let s = x as u128 + y as u128 + cy as u128;
            t!(f, "add_u64_carry", { let mut r = 0u64; let k = hu::add_u64_carry(x, y, cy, &mut r); (r, k) }, (s as u64, (s >> 64) as u8), "x={x:#x} y={y:#x} c={cy}");
            let s0 = x as u128 + y as u128;
            t!(f, "add_u64", { let mut r = 0u64; let k = hu::add_u64(x, y, &mut r); (r, k) }, (s0 as u64, (s0 >> 64) as u8), "x={x:#x} y={y:#x}");
            let d = x as i128 - y as i128 - cy as i128;
            t!(f, "sub_u64_borrow", { let mut r = 0u64; let k = hu::sub_u64_borrow(x, y, cy, &mut r); (r, k) }, (d as u64, (d < 0) as u8), "x={x:#x} y={y:#x} b={cy}");
            let d0 = x as i128 - y as i128;
            t!(f, "sub_u64", { let mut r = 0u64; let k = hu::sub_u64(x, y, &mut r); (r, k) }, (d0 as u64, (d0 < 0) as u8), "x={x:#x} y={y:#x}");
            n += 4;
        }
        UOp::Naf => {
            // rotation steps are the only callers: |v| < N/2 <= 2^16; explored up to 2^20
            let v = ((c.w % (1 << 21)) as i64 - (1 << 20)) as i32;
            match catch(|| hu::naf(v)) {
                Err(p) => f.add("C08/naf", format!("naf({v}) panicked: {p}")),
                Ok(d) => {
                    let sum: i64 = d.iter().map(|x| *x as i64).sum();
                    let mut ok = sum == v as i64;
                    let mut exps = vec![];
                    for x in &d { let ax = x.unsigned_abs(); if !ax.is_power_of_two() || (*x < 0) != (v < 0) && false { ok = false; } exps.push(ax.trailing_zeros()); if !ax.is_power_of_two() { ok = false; } }
                    let mut se = exps.clone(); se.sort();
                    for w in se.windows(2) { if w[1] - w[0] < 2 { ok = false; } }
                    if !ok { f.add("C08/naf", format!("naf({v}) = {d:?}: not a non-adjacent form summing to the value")); }
                }
            }
            n += 1;
        }
    }
    let nontrivial = carry_prone(&[a, b]) && len >= 1;
    f.verdict(Info::new(nontrivial).evals(n).label(format!("{:?}", c.op)).label(format!("len={len}")))
}

pub fn def() -> PropertyDef {
    PropertyDef {
        id: "C08",
        level: "exploration",
        rule: "random: modulus bits uniform 2..61 with shapes 2^k, 2^k+-1, top-of-range, prime, even; operands from {0,1,q-1,q,q+1,2q-1,2q,2^63,2^64-1} and uniform, restricted to each function's documented domain; multi-word operands of 1..8 limbs from carry-provoking limb patterns. exhaustive: every modulus below 2^7 with every operand pair for every two-operand modular function. non-trivial: modulus >= 2^59 or an operand/limb with its top bit set (carry / quotient-estimate corner). distinct = distinct serialized cases.",
        assumptions: vec![
            "oracle: native u128 arithmetic and the in-house BigU (self-tested at start of run)",
            "domains re-derived from doc comments and callers: operands of add/sub/negate/decrement below q, increment operand <= 2q-2, div2 for odd q, precomputed-operand multiplication with y < q and any 64-bit x, dot products whose exact sum fits 128 bits, multi-word binary helpers on equal-length buffers, gcd/xgcd operands below 2^62, naf for |v| <= 2^20",
        ],
        subs: vec![
            Sub::prop("modular_primitives", 200_000, 5_000_000, 0.2, |_| mod_case(), mod_oracle).fuzzable(mod_decode, mod_oracle),
            Sub::enumerate("small_moduli_exhaustive", |_| (2u64..128).map(|q| SmallQ { q }).collect(), small_oracle),
            Sub::prop("multiword_helpers", 600_000, 20_000_000, 0.2, |_| uint_case(), uint_oracle).fuzzable(uint_decode, uint_oracle),
            Sub::corpus("fuzz_corpus_arith", "c08_arith", mod_decode, mod_oracle),
            Sub::corpus("fuzz_corpus_multiword", "c08_multiword", uint_decode, uint_oracle),
        ],
    }
}
