//! C11 — batch encoding is a ring isomorphism; the Galois action is the documented rotation.
use crate::gen::params::*;
use crate::gen::*;
use crate::refmath as rm;
use crate::runner::*;
use crate::shadow::plain_value;
use heathcliff::util::GaloisTool;
use heathcliff::*;
use proptest::prelude::*;
use serde::{Deserialize, Serialize};

#[derive(Clone, Debug, Serialize, Deserialize)]
pub struct BatchCase {
    pub scheme: Scheme, pub logn: u32, pub t: u64,
    pub kind: u8, pub unit: u16,
    pub v1: Vec<(u8, u64)>, pub v2: Vec<(u8, u64)>,
    pub len_sel: u16, pub step: i32, pub positions: Vec<u16>,
}

fn context_for(scheme: Scheme, logn: u32, t: u64) -> Result<std::sync::Arc<HeContext>, String> {
    // two 60/61-bit-ish primes so that t < Q for every t of up to 60 bits; distinct from t
    let mut moduli = ntt_primes_distinct(logn, &[60, 60], &[0, 1]);
    if moduli.contains(&t) { moduli = ntt_primes_distinct(logn, &[60, 60, 60], &[0, 1, 2]).into_iter().filter(|m| *m != t).take(2).collect(); }
    let ps = ParamSet { scheme, logn, moduli, t, expand_chain: false, special_flag: false, entropy: 1 };
    let ctx = HeContext::new(build_params(&ps), false, SecurityLevel::None);
    if !ctx.parameters_set() { return Err(format!("context rejected for N=2^{logn} t={t}")); }
    if !ctx.first_context_data().unwrap().qualifiers().using_batching { return Err(format!("batching not enabled for N=2^{logn}, prime t={t} = 1 mod 2N")); }
    Ok(ctx)
}

fn batch_case(tier: Tier) -> BoxedStrategy<BatchCase> {
    let maxlog = tier.pick(10u32, 13u32);
    (any::<bool>(), prop_oneof![8 => 1u32..=6, 3 => 7u32..=8, 1 => 9u32..=maxlog], 4u32..=60, any::<u8>(), 0u8..8, any::<u16>(), any::<u16>(), any::<i32>())
        .prop_flat_map(|(bgv, logn, bits, sel, kind, unit, len_sel, step)| {
            let n = 1usize << logn;
            let t = ntt_prime(logn, bits, sel); // smallest admissible size is used when bits < logn+2
            (Just(if bgv { Scheme::BGV } else { Scheme::BFV }), Just(logn), Just(t), Just(kind), Just(unit), proptest::collection::vec((any::<u8>(), any::<u64>()), n),
             proptest::collection::vec((any::<u8>(), any::<u64>()), n), Just(len_sel), Just(step), proptest::collection::vec(any::<u16>(), 8))
        }).prop_map(|(scheme, logn, t, kind, unit, v1, v2, len_sel, step, positions)| BatchCase { scheme, logn, t, kind, unit, v1, v2, len_sel, step, positions }).boxed()
}

/// exhaustive unit vectors for small N
fn unit_cases(tier: Tier) -> Vec<BatchCase> {
    let mut out = vec![];
    for logn in 1..=tier.pick(7u32, 9u32) {
        for (bits, sel) in [(logn + 2, 0x80u8), (20, 0), (60, 1)] {
            let t = ntt_prime(logn, bits, sel);
            for u in 0..(1usize << logn) {
                out.push(BatchCase { scheme: if u % 2 == 0 { Scheme::BFV } else { Scheme::BGV }, logn, t, kind: 100, unit: u as u16, v1: vec![], v2: vec![], len_sel: 0, step: (u as i32) - (1 << logn) / 4, positions: vec![] });
            }
        }
    }
    out
}

/// slot evaluation points: slot i < N/2 is psi^(3^i), slot i + N/2 is psi^(-3^i)
fn slot_points(n: usize, psi: u64, t: u64) -> Vec<u64> {
    let m = 2 * n as u64;
    let mut pts = vec![0u64; n];
    let mut e = 1u64;
    for i in 0..n / 2 { pts[i] = rm::powmod(psi, e, t); pts[i + n / 2] = rm::powmod(psi, m - e, t); e = (e * 3) % m; }
    if n == 1 { pts[0] = psi; }
    pts
}

fn oracle(c: &BatchCase) -> Verdict {
    let n = 1usize << c.logn; let t = c.t; let half = n / 2;
    let ctx = match context_for(c.scheme, c.logn, t) { Ok(x) => x, Err(e) => return fail(e) };
    let be = BatchEncoder::new(ctx.clone());
    check!(be.slot_count() == n && be.row_count() == 2 && be.column_count() == half, "slot/row/column counts");
    let psi = match rm::minimal_primitive_root(2 * n as u64, t) { Some(r) => r, None => return fail("oracle: no root") };
    let pts = slot_points(n, psi, t);
    let (v1, short): (Vec<u64>, bool) = if c.kind == 100 { let mut v = vec![0u64; n]; v[c.unit as usize % n] = 1; (v, false) } else {
        let full: Vec<u64> = c.v1.iter().map(|(s, r)| match c.kind { 0 => t - 1, _ => plain_value(*s, *r, t) }).collect();
        if c.kind == 1 { let len = 1 + pick_idx(c.len_sel, n); (full[..len].to_vec(), len < n) } else { (full, false) }
    };
    let v1p = { let mut x = v1.clone(); x.resize(n, 0); x };
    let p1 = match catch(|| be.encode_new(&v1)) { Ok(p) => p, Err(p) => return fail(format!("encode panicked on a valid vector: {p}")) };
    check!(!p1.is_ntt_form() && p1.coeff_count() == n && p1.is_valid_for(&ctx), "encode output malformed (coeff_count {})", p1.coeff_count());
    let poly = p1.data().clone();
    // the destination-argument form must not depend on the destination's previous contents (short inputs are zero-padded)
    let mut reused = be.encode_new(&(0..n as u64).map(|i| (i * i + 1) % t).collect::<Vec<_>>());
    if let Err(p) = catch(|| be.encode(&v1, &mut reused)) { return fail(format!("encode into an existing plaintext panicked: {p}")); }
    check!(reused.data() == p1.data() && reused.coeff_count() == n, "encode into a previously used destination differs from encode_new (input length {})", v1.len());
    // evaluation at the roots (all slots for N <= 256, sampled above)
    let positions: Vec<usize> = if n <= 256 { (0..n).collect() } else { c.positions.iter().map(|s| pick_idx(*s, n)).chain([0, half, n - 1, c.unit as usize % n]).collect() };
    for &i in &positions {
        let got = rm::eval_poly(&poly, pts[i], t);
        if got != v1p[i] { return fail(format!("encode(v) evaluated at the root of slot {i} gives {got}, slot value is {} (N={n}, t={t})", v1p[i])); }
    }
    // decode o encode = id (zero padding)
    let d1 = match catch(|| be.decode_new(&p1)) { Ok(d) => d, Err(p) => return fail(format!("decode panicked: {p}")) };
    check!(d1 == v1p, "decode(encode(v)) != v (N={n}, t={t}, short input {short})");
    let mut evals = 2u64;
    let mut wrap = false;
    if c.kind != 100 {
        // encode o decode = id on a full polynomial
        let rp: Vec<u64> = c.v2.iter().map(|(s, r)| plain_value(*s, *r, t)).collect();
        let plain = be.encode_polynomial_new(&rp);
        let dv = match catch(|| be.decode_new(&plain)) { Ok(d) => d, Err(p) => return fail(format!("decode of a coefficient plaintext panicked: {p}")) };
        // destination form into a vector that was used before, with short plaintexts (what decryption returns: trimmed to the
        // significant coefficients) - must equal the value-returning form
        for l in [1usize, 1 + pick_idx(c.len_sel, n), n] {
            let mut short = be.encode_polynomial_new(&rp[..l]);
            if l < n && c.len_sel & 1 == 1 { short.resize(l); }
            let want = be.decode_new(&short);
            let mut dest: Vec<u64> = (0..n + 3).map(|i| (i as u64 * 11 + 5) % t).collect();
            if catch(|| be.decode(&short, &mut dest)).is_err() { return fail(format!("decode into a used destination panicked (plaintext with {l} coefficients)")); }
            check!(dest == want, "decode of a {l}-coefficient plaintext into a previously used destination differs from decode_new (N={n}, t={t})");
        }
        for &i in &positions { check!(dv[i] == rm::eval_poly(&rp, pts[i], t), "decode(p)[{i}] is not p evaluated at the slot's root (N={n}, t={t})"); }
        let back = be.encode_new(&dv);
        check!(back.data()[..] == rp[..], "encode(decode(p)) != p (N={n}, t={t})");
        // additivity and multiplicativity
        let v2: Vec<u64> = dv.clone();
        let sum: Vec<u64> = (0..n).map(|i| rm::addmod(poly[i], rp[i], t)).collect();
        let ds = be.decode_new(&be.encode_polynomial_new(&sum));
        check!((0..n).all(|i| ds[i] == rm::addmod(v1p[i], v2[i], t)), "decode(p1+p2) != v1+v2 slot-wise");
        if n <= 256 {
            let prod = rm::negacyclic_mul(&poly, &rp, t);
            let dp = be.decode_new(&be.encode_polynomial_new(&prod));
            check!((0..n).all(|i| dp[i] == rm::mulmod(v1p[i], v2[i], t)), "decode(p1*p2 mod X^N+1) != v1*v2 slot-wise (N={n}, t={t})");
            wrap = true;
        }
        // coefficient encoding reduces modulo t and is inverted by coefficient decoding
        let raw: Vec<u64> = c.v2.iter().map(|(_, r)| *r).collect();
        let pe = be.encode_polynomial_new(&raw);
        check!(pe.data().iter().zip(raw.iter()).all(|(a, b)| *a == b % t) && pe.coeff_count() == n, "encode_polynomial does not reduce modulo t");
        check!(be.decode_polynomial_new(&pe) == raw.iter().map(|r| r % t).collect::<Vec<_>>(), "decode_polynomial(encode_polynomial(x)) != x mod t");
        // the destination form, into vectors that were used before (longer, equal, shorter than the plaintext), for full and
        // short coefficient lists: as a polynomial (zero-padded) the result must be the encoded list modulo t
        for l in [1usize, 1 + pick_idx(c.len_sel, n), n] {
            let ps = be.encode_polynomial_new(&raw[..l]);
            let want: Vec<u64> = (0..n).map(|i| if i < l { raw[i] % t } else { 0 }).collect();
            for dl in [n + 3, n, l.saturating_sub(1), 0] {
                let mut dest: Vec<u64> = (0..dl).map(|i| (i as u64 * 13 + 7) % t).collect();
                if catch(|| be.decode_polynomial(&ps, &mut dest)).is_err() { return fail(format!("decode_polynomial into a used destination of length {dl} panicked (list of {l} coefficients)")); }
                check!(dest.len() <= n.max(dl), "decode_polynomial returned {} coefficients", dest.len());
                let mut got = dest.clone(); got.resize(n.max(dest.len()), 0);
                check!(got[..n] == want[..] && got[n..].iter().all(|x| *x == 0), "decode_polynomial of a {l}-coefficient list into a previously used destination of length {dl} is not the encoded list modulo t (N={n}, t={t})");
            }
        }
        evals += 6;
    }
    // Galois action
    let mut neg_step = false;
    if n >= 2 {
        let gt = GaloisTool::new(c.logn as usize);
        // the public plaintext-level entry point (BFV and BGV batch plaintexts alike), when the context has a Galois tool
        let ev = if ctx.using_keyswitching() { Some(Evaluator::new(ctx.clone())) } else { None };
        let steps: Vec<isize> = if half <= 1 { vec![0] } else if n <= 64 { (-(half as isize - 1)..=(half as isize - 1)).collect() } else {
            let s = (c.step as isize).rem_euclid(2 * half as isize - 1) - (half as isize - 1); vec![0, s, 1, -1, half as isize - 1, -(half as isize - 1)] };
        let m = Modulus::new(t);
        for s in steps {
            let elt = match catch(|| gt.get_elt_from_step(s)) { Ok(e) => e, Err(p) => return fail(format!("get_elt_from_step({s}) panicked for N={n}: {p}")) };
            // the result buffer is one that was used before (every position has to be overwritten)
            let mut out: Vec<u64> = (0..n).map(|i| (i as u64 * 7 + 3) % t).collect();
            gt.apply(&poly, elt, &m, &mut out);
            // the polynomial map must be X -> X^elt
            if n <= 256 { check!(out == rm::galois_coeff(&poly, elt as u64, t), "GaloisTool::apply is not X -> X^{elt} (N={n})"); }
            if let Some(ev) = &ev {
                match catch(|| ev.apply_galois_plain_new(&p1, elt)) {
                    Ok(q) => { let mut d = q.data().clone(); d.resize(n, 0); check!(d == out && !q.is_ntt_form(), "Evaluator::apply_galois_plain (element {elt}, {:?}) differs from the automorphism X -> X^{elt} modulo t (N={n}, t={t})", c.scheme); }
                    Err(p) => return fail(format!("Evaluator::apply_galois_plain (element {elt}, {:?}) panicked on a batch-encoded plaintext: {p}", c.scheme)),
                }
            }
            let dec = be.decode_new(&be.encode_polynomial_new(&out));
            let want: Vec<u64> = if s == 0 { (0..n).map(|i| v1p[(i + half) % n]).collect() } else {
                let r = s.rem_euclid(half as isize) as usize;
                (0..n).map(|i| { let (row, col) = (i / half, i % half); v1p[row * half + (col + r) % half] }).collect() };
            if dec != want { return fail(format!("automorphism of step {s} (element {elt}) does not {} (N={n}, t={t})", if s == 0 { "swap the two rows".to_string() } else { format!("rotate both rows left by {s}") })); }
            if s < 0 { neg_step = true; }
            evals += 1;
        }
    }
    let second_row = c.kind == 100 && (c.unit as usize % n) >= half;
    Verdict::Pass(Info::new(second_row || neg_step || wrap).evals(evals).label(format!("logN={}", c.logn)).label_if(c.kind == 100, "unit vector").label_if(short, "short input")
        .label_if(64 - t.leading_zeros() >= 59, "t>=2^58").label_if(64 - t.leading_zeros() <= c.logn + 3, "smallest t"))
}

pub fn def() -> PropertyDef {
    PropertyDef {
        id: "C11",
        level: "exploration",
        rule: "exhaustive: all N unit vectors for N=2..128 (thorough 512) x {smallest batching prime, 20-bit, 60-bit} with all rotation steps for N<=64; random: N=2..1024 (thorough 8192), batching primes of 4..60 bits, vectors all-(t-1) / short / boundary-biased random. Oracle: Horner evaluation of the encoded polynomial at psi^(+-3^i) with the independently computed minimal primitive 2N-th root modulo t, naive negacyclic products, index-arithmetic automorphism. non-trivial: unit vector in the second row, or a negative rotation step, or a product with wrap-around.",
        assumptions: vec!["u128 modular arithmetic; refmath root search", "vectors have entries below t (the encoder's precondition)"],
        subs: vec![
            Sub::enumerate("unit_vectors_exhaustive", unit_cases, oracle),
            Sub::prop("random_vectors", 300_000, 1_500_000, 0.3, batch_case, oracle),
        ],
    }
}
