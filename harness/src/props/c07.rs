//! C07 — the reported noise budget is the true one; fresh budgets meet the worst-case bound.
//! Oracle: phase computed from the secret key by naive convolution per prime, own CRT, exact integer norm.
use crate::bigint::{centered, crt_compose, BigU};
use crate::gen::params::*;
use crate::prog::*;
use crate::refmath as rm;
use crate::runner::*;
use crate::shadow::*;
use heathcliff::*;

/// secret key as coefficient vectors modulo each data prime of `moduli` (from the ternary coefficient form)
fn sk_mod(s: &[i8], q: u64) -> Vec<u64> { s.iter().map(|&c| match c { 0 => 0, 1 => 1, _ => q - 1 }).collect() }

/// exact phase c(s) = sum c_i s^i as integers in [0, Q), one per coefficient; ct must be in coefficient form
pub fn exact_phase(w: &World, ct: &Ciphertext, s: &[i8]) -> Vec<BigU> {
    let n = w.n;
    let level = w.level_index(ct.parms_id()).expect("level");
    let moduli = &w.levels[level].moduli;
    let mut per_prime: Vec<Vec<u64>> = vec![];
    for (j, &q) in moduli.iter().enumerate() {
        let sq = sk_mod(s, q);
        let mut acc = ct.poly_component(0, j).to_vec();
        let mut spow = sq.clone();
        for i in 1..ct.size() {
            let term = rm::negacyclic_mul(ct.poly_component(i, j), &spow, q);
            for x in 0..n { acc[x] = rm::addmod(acc[x], term[x], q); }
            if i + 1 < ct.size() { spow = rm::negacyclic_mul(&spow, &sq, q); }
        }
        per_prime.push(acc);
    }
    (0..n).map(|x| crt_compose(&per_prime.iter().map(|p| p[x]).collect::<Vec<_>>(), moduli)).collect()
}

pub struct Measured { pub budget: usize, pub norm_bits: usize, pub decrypt: Vec<u64>, pub decrypt_safe: bool }

/// oracle budget and oracle decryption of a coefficient-form ciphertext
pub fn measure(w: &World, ct: &Ciphertext, s: &[i8]) -> Measured {
    let level = w.level_index(ct.parms_id()).unwrap();
    let q = &w.levels[level].q; let qbits = w.levels[level].qbits;
    let t = w.t();
    let phase = exact_phase(w, ct, s);
    let bfv = w.ps.scheme == Scheme::BFV;
    let mut norm = BigU::zero();
    let mut dec = vec![]; let mut safe = true;
    for x in &phase {
        // invariant-noise numerator: [t x]_Q (BFV) / [x]_Q (BGV), centered
        let y = if bfv { x.mul_u64(t).rem(q) } else { x.clone() };
        let c = centered(&y, q);
        if c.mag > norm { norm = c.mag.clone(); }
        if bfv {
            let num = x.mul_u64(t);
            let (fl, r) = num.divrem(q);
            let two_r = r.shl(1);
            let dist = if two_r >= *q { two_r.sub(q) } else { q.sub(&two_r) };
            if dist.shl(30) < q.shl(1) { safe = false; }
            dec.push((if two_r >= *q { fl.add_u64(1) } else { fl }).rem_u64(t));
        } else {
            let xc = centered(x, q);
            let two = xc.mag.shl(1);
            let dist = if two >= *q { two.sub(q) } else { q.sub(&two) };
            if dist.shl(30) < q.shl(1) { safe = false; }
            let m = xc.rem_u64(t);
            let finv = rm::invmod(ct.correction_factor() % t, t).unwrap_or(1);
            dec.push(rm::mulmod(m, finv, t));
        }
    }
    let nb = norm.bits();
    let budget = (qbits as isize - nb as isize - 1).max(0) as usize;
    Measured { budget, norm_bits: nb, decrypt: dec, decrypt_safe: safe }
}

fn to_coeff(w: &World, ct: &Ciphertext) -> Result<Ciphertext, String> {
    if ct.is_ntt_form() { catch(|| w.evaluator.transform_from_ntt_new(ct)) } else { Ok(ct.clone()) }
}

fn oracle(c: &ProgCase) -> Verdict {
    let mut f = Fails::new();
    let w = match World::new(&c.ps) { Ok(w) => w, Err(e) => return fail_key("harness/params", e) };
    let mut m = match Machine::new(&w, c) { Ok(m) => m, Err(e) => return fail(e) };
    let s = w.secret_coeffs();
    check!(s.iter().all(|&x| x == 0 || x == 1 || x == -1), "secret key is not ternary in coefficient form");
    let scheme = format!("{:?}", w.ps.scheme);
    let mut budgets: Vec<usize> = vec![];
    let (mut checked, mut near_zero, mut big_size, mut lower, mut many_primes, mut dec_checked) = (0u64, false, false, false, false, 0u64);
    // returns the library budget after comparing it with the oracle
    let mut probe = |m: &Machine, ct: &Ciphertext, what: &str, f: &mut Fails, shadow_msg: Option<&Vec<u64>>| -> Option<usize> {
        let cf = match to_coeff(&w, ct) { Ok(c) => c, Err(p) => { f.add("C07/transform", format!("{what}: transform_from_ntt panicked: {p}")); return None; } };
        let lib = match catch(|| w.decryptor.invariant_noise_budget(&cf)) { Ok(b) => b, Err(p) => { f.add("C07/budget", format!("{scheme} {what}: invariant_noise_budget panicked on a valid ciphertext: {p}")); return None; } };
        let me = measure(&w, &cf, &s);
        if lib != me.budget {
            f.add("C07/budget", format!("{scheme} {what}: invariant_noise_budget = {lib} but the definition gives {} (norm has {} bits, Q has {} bits; size {}, level {})",
                me.budget, me.norm_bits, w.levels[w.level_index(ct.parms_id()).unwrap()].qbits, ct.size(), w.level_index(ct.parms_id()).unwrap()));
        }
        // decryption is the exact rounding / exact centered residue whenever away from the tie margin
        if me.decrypt_safe {
            match m.decrypt_padded(ct) {
                Ok(d) => {
                    if d != me.decrypt { f.add("C07/decrypt-exact", format!("{scheme} {what}: decrypt differs from the exactly rounded phase (budget {})", me.budget)); }
                    // and it is the intended message whenever the exact noise relative to it is below the threshold
                    if let Some(msg) = shadow_msg { if me.budget >= 1 && d == me.decrypt && me.decrypt == *msg { dec_checked += 1; } }
                }
                Err(p) => f.add("C07/decrypt-exact", format!("{scheme} {what}: decrypt panicked: {p}")),
            }
        }
        checked += 1;
        if me.budget <= 3 { near_zero = true; }
        if ct.size() >= 3 { big_size = true; }
        if ct.coeff_modulus_size() >= 3 { many_primes = true; }
        if w.level_index(ct.parms_id()).unwrap() > 0 { lower = true; }
        Some(lib)
    };
    for i in 0..m.pool.len() {
        let b = probe(&m, &m.pool[i].ct.clone(), &format!("fresh element {i}"), &mut f, Some(&m.pool[i].msg.clone()));
        if let Some(b) = b {
            // fresh lower bound from the deterministic bounds on secret, mask and error: norm <= 2^lv
            let lv = m.pool[i].lv;
            let min_budget = (w.levels[0].qbits as f64 - (lv.floor() + 1.0) - 1.0).max(0.0) as usize;
            // the deterministic bound puts the noise of this fresh encryption below the decryption threshold: it has to decrypt to its message
            if min_budget >= 1 && m.pool[i].level == 0 && f.0.is_empty() {
                if let (Ok(cf), msg) = (to_coeff(&w, &m.pool[i].ct), &m.pool[i].msg) {
                    let me = measure(&w, &cf, &s);
                    if me.decrypt_safe && me.decrypt != *msg {
                        let pos = (0..me.decrypt.len().min(msg.len())).find(|&x| me.decrypt[x] != msg[x]).unwrap_or(0);
                        f.add("C07/fresh-decrypt", format!("{scheme} fresh element {i}: worst-case noise 2^{lv:.1} is below the threshold (Q {} bits, reported budget {b}) but the exactly rounded phase is not the message: coefficient {pos} = {} instead of {} (t={})",
                            w.levels[0].qbits, me.decrypt.get(pos).copied().unwrap_or(0), msg.get(pos).copied().unwrap_or(0), w.t()));
                    }
                }
            }
            if b < min_budget { f.add("C07/fresh-bound", format!("{scheme} fresh element {i}: budget {b} below the worst-case minimum {min_budget} (bound 2^{lv:.1}, Q {} bits)", w.levels[0].qbits)); }
        }
        budgets.push(b.unwrap_or(0));
    }
    for (si, op) in c.ops.iter().enumerate() {
        if !f.0.is_empty() { break; }
        let p = match m.plan(op) { Some(p) => p, None => continue };
        let res = match m.exec_new(&p) { Ok(r) => r, Err(_) => break }; // panics on well-typed operands are C02's concern
        if m.check_meta(&p, &res).is_err() {
            // inconsistent metadata is C02's subject; what C07 promises is still checked on such a result: a ciphertext whose
            // reported budget is positive has to decrypt
            if let Ok(cf) = to_coeff(&w, &res) { if let Ok(b) = catch(|| w.decryptor.invariant_noise_budget(&cf)) { if b >= 1 {
                if let Err(pn) = m.decrypt_padded(&res) { f.add("C07/decrypt-exact", format!("{scheme} step {si} {:?}: reported budget {b} but decrypt panicked: {pn}", p.kind)); }
            } } }
            break;
        }
        let b = match probe(&m, &res, &format!("step {si} {:?}", p.kind), &mut f, None) { Some(b) => b, None => break };
        let ba = budgets[p.a];
        match p.kind {
            OpKind::Negate => if b != ba { f.add("C07/negate", format!("{scheme} step {si}: negation changed the budget from {ba} to {b}")); },
            OpKind::Add | OpKind::Sub | OpKind::AddMany => {
                let mut ops = vec![p.a, p.b.unwrap()]; if let Some(cc) = p.c { ops.push(cc); }
                let same_cf = ops.iter().all(|&i| m.pool[i].ct.correction_factor() == m.pool[p.a].ct.correction_factor());
                if same_cf {
                    let k = ops.len();
                    let minb = ops.iter().map(|&i| budgets[i]).min().unwrap();
                    let loss = (k as f64).log2().ceil() as usize + 1;
                    if b + loss < minb { f.add("C07/add", format!("{scheme} step {si}: {:?} of {k} operands dropped the budget from min {minb} to {b} (allowed loss {loss})", p.kind)); }
                }
            }
            _ => {}
        }
        let lv = m.result_bound(&p, &res);
        m.pool.push(Elem { ct: res, msg: p.msg.clone(), level: p.level, size: p.size, ntt: p.ntt, lv, depth: 0, fresh: false });
        budgets.push(b);
    }
    let nontrivial = checked > 0 && (near_zero || big_size || many_primes || lower);
    f.verdict(Info::new(nontrivial).evals(checked.max(1)).label(scheme).label_if(near_zero, "budget within 3 bits of 0").label_if(big_size, "size>=3")
        .label_if(many_primes, ">=3 primes").label_if(lower, "lower level").label_if(dec_checked > 0, "decrypt==message verified"))
}

fn cfg7(tier: Tier) -> ParamCfg {
    // 1..6 primes of mixed sizes so that every word count of the multi-precision norm / compose code is exercised
    ParamCfg { schemes: vec![Scheme::BFV, Scheme::BGV], logn_lo: 1, logn_hi: tier.pick(5, 7), logn_small: 3, k_lo: 1, k_hi: 6, bits_lo: 20, bits_hi: 60,
        t_kind: TKind::Any, t_bits_lo: 2, t_bits_hi: 40, need_keyswitching: false, allow_special_flag: true, always_expand: true }
}

pub fn def() -> PropertyDef {
    PropertyDef {
        id: "C07",
        level: "exploration",
        rule: "ciphertexts reached by generated operation programs (multiplication-heavy, so budgets are driven to 0) over BFV/BGV parameter sets with 1..6 primes of 20..60 bits, all levels; for every fresh and every computed ciphertext the library's invariant_noise_budget is compared with max(0, bits(Q) - bits(||[t c(s)]_Q||) - 1) computed from the secret key by naive per-prime convolution, own CRT and exact centered norm (BGV: without the factor t); fresh budgets against the deterministic lower bound; negate / add / sub / add_many relations; decrypt against the exactly rounded phase outside the 2^-30 tie margin. non-trivial: budget within 3 bits of 0, or size >= 3, or >= 3 primes, or a lower level.",
        assumptions: vec!["secret key brought to coefficient form with the library's inverse NTT (checked ternary; the NTT itself is C09's subject)", "BigU arithmetic (self-tested)"],
        subs: vec![
            Sub::prop("budget_programs", 150_000, 1_500_000, 0.3, |t| prog_case(cfg7(t), t.pick(10, 20), 8), oracle),
            Sub::prop("budget_keyswitch_programs", 50_000, 500_000, 0.3, |t| prog_case(prog_param_cfg(t.pick(4, 6), vec![Scheme::BFV, Scheme::BGV]), t.pick(10, 20), 6), oracle),
        ],
    }
}
