//! C06 — results stay valid, API variants agree bit-for-bit, bad operands are refused.
use crate::gen::params::*;
use crate::runner::*;
use crate::shadow::plain_value;
use heathcliff::*;
use num_complex::Complex64;
use proptest::prelude::*;
use serde::{Deserialize, Serialize};

#[derive(Clone, Copy, Debug, PartialEq, Eq, Serialize, Deserialize)]
pub enum Ep { Negate, Add, Sub, AddMany, Multiply, Square, AddPlain, SubPlain, MultiplyPlain, ToNtt, FromNtt, Relinearize, ModSwitchToNext, ModSwitchTo,
    RescaleToNext, RescaleTo, ApplyGalois, RotateRows, RotateColumns, RotateVector, ComplexConjugate, ApplyKeyswitching,
    TransformPlainToNtt, ModSwitchToNextPlain, ModSwitchPlainTo, ApplyGaloisPlain }
pub const EPS: [Ep; 26] = [Ep::Negate, Ep::Add, Ep::Sub, Ep::AddMany, Ep::Multiply, Ep::Square, Ep::AddPlain, Ep::SubPlain, Ep::MultiplyPlain, Ep::ToNtt, Ep::FromNtt,
    Ep::Relinearize, Ep::ModSwitchToNext, Ep::ModSwitchTo, Ep::RescaleToNext, Ep::RescaleTo, Ep::ApplyGalois, Ep::RotateRows, Ep::RotateColumns, Ep::RotateVector,
    Ep::ComplexConjugate, Ep::ApplyKeyswitching, Ep::TransformPlainToNtt, Ep::ModSwitchToNextPlain, Ep::ModSwitchPlainTo, Ep::ApplyGaloisPlain];
#[derive(Clone, Copy, Debug, PartialEq, Eq)]
pub enum FormK { Inplace, Dest, New }

#[derive(Clone, Debug, Serialize, Deserialize)]
pub struct TestSpec { pub ep: Ep, pub a: u16, pub b: u16, pub c: u16, pub p: u16, pub tgt: u16, pub step: i16, pub corr: u8, pub cpos: u16, pub cwhich: u8 }

#[derive(Clone, Debug, Serialize, Deserialize)]
pub struct FormsCase {
    pub ps: ParamSet,
    pub build: Vec<(u8, u16, u16)>,
    pub coeffs: Vec<(u8, u64)>,
    pub cvals: Vec<(i32, i32)>,
    pub tests: Vec<TestSpec>,
}

fn cfg6(tier: Tier) -> ParamCfg {
    ParamCfg { schemes: vec![Scheme::BFV, Scheme::BGV, Scheme::CKKS], logn_lo: 2, logn_hi: tier.pick(4, 6), logn_small: 3, k_lo: 2, k_hi: 5, bits_lo: 40, bits_hi: 60,
        t_kind: TKind::BatchingOnly, t_bits_lo: 8, t_bits_hi: 24, need_keyswitching: true, allow_special_flag: false, always_expand: true }
}

/// One exact-scheme set in four gets one of its data primes (not the first, not the special one) replaced by a prime of the same
/// bit length that is 1 modulo t (and modulo 2N): dropping it multiplies the BGV correction factor by exactly 1, the corner in
/// which an implementation may be tempted to skip the update. The replacement is not smaller than the prime it replaces, so t
/// stays below every level's modulus exactly as before.
fn prime_one_mod_t(mut ps: ParamSet) -> ParamSet {
    if ps.scheme == Scheme::CKKS || ps.t < 2 || ps.moduli.len() < 3 || ps.entropy % 4 != 1 { return ps; }
    let idx = 1 + ((ps.entropy >> 8) as usize) % (ps.moduli.len() - 2);
    let old = ps.moduli[idx]; let bits = 64 - old.leading_zeros();
    let two_n = 2u128 << ps.logn; let t = ps.t as u128;
    let g = { let (mut a, mut b) = (two_n, t); while b != 0 { let r = a % b; a = b; b = r; } a };
    let l = two_n / g * t;
    if l >= (1u128 << bits) { return ps; }
    let mut k = (old as u128 + l - 1) / l; let mut tries = 0;
    while tries < 4000 {
        let cand = k * l + 1; if cand >= (1u128 << bits) { break; }
        let c = cand as u64;
        if c >= old && !ps.moduli.contains(&c) && crate::refmath::is_prime(c) { ps.moduli[idx] = c; break; }
        k += 1; tries += 1;
    }
    ps
}

fn forms_case(tier: Tier) -> BoxedStrategy<FormsCase> {
    let test = (0usize..EPS.len(), any::<[u16; 5]>(), any::<i16>(), 0u8..24, any::<u16>(), 0u8..4)
        .prop_map(|(e, s, step, corr, cpos, cwhich)| TestSpec { ep: EPS[e], a: s[0], b: s[1], c: s[2], p: s[3], tgt: s[4], step, corr, cpos, cwhich });
    // one case in four: primes from 20 bits and plain moduli up to 44 bits, so that t exceeds some q_i (no fast plain lift;
    // the scaling code then handles addends that are not reduced modulo q_i)
    let wide = ParamCfg { schemes: vec![Scheme::BFV, Scheme::BGV], bits_lo: 20, t_bits_hi: 44, ..cfg6(tier) };
    prop_oneof![3 => cfg6(tier).strategy(), 1 => wide.strategy()].prop_map(prime_one_mod_t).prop_flat_map(move |ps| {
        let n = 1usize << ps.logn;
        (Just(ps), proptest::collection::vec((0u8..10, any::<u16>(), any::<u16>()), 0..10), proptest::collection::vec((any::<u8>(), any::<u64>()), n),
         proptest::collection::vec((any::<i32>(), any::<i32>()), n / 2), proptest::collection::vec(test.clone(), 1..6))
    }).prop_map(|(ps, build, coeffs, cvals, tests)| FormsCase { ps, build, coeffs, cvals, tests }).boxed()
}

#[derive(Clone, PartialEq, Debug)]
pub struct CtSnap { size: usize, cms: usize, deg: usize, data: Vec<u64>, id: ParmsID, scale: u64, ntt: bool, cf: u64 }
#[derive(Clone, PartialEq, Debug)]
pub struct PtSnap { cc: usize, data: Vec<u64>, id: ParmsID, scale: u64 }
#[derive(Clone, PartialEq, Debug)]
pub enum Snap { Ct(CtSnap), Pt(PtSnap) }
pub fn snap_ct(c: &Ciphertext) -> CtSnap { CtSnap { size: c.size(), cms: c.coeff_modulus_size(), deg: c.poly_modulus_degree(), data: c.data().clone(), id: *c.parms_id(), scale: c.scale().to_bits(), ntt: c.is_ntt_form(), cf: c.correction_factor() } }
pub fn snap_pt(p: &Plaintext) -> PtSnap { PtSnap { cc: p.coeff_count(), data: p.data().clone(), id: *p.parms_id(), scale: p.scale().to_bits() } }
fn ct_from(s: &CtSnap) -> Ciphertext { Ciphertext::from_members(s.size, s.cms, s.deg, s.data.clone(), s.id, f64::from_bits(s.scale), s.cf, s.ntt) }

pub struct Env { pub w: World, pub rk: RelinKeys, pub gk: GaloisKeys, pub ksk: KSwitchKeys, pub rk_seeded: RelinKeys, pub gk_seeded: GaloisKeys, pub ksk_seeded: KSwitchKeys }

#[derive(Clone)]
pub struct Operands { pub a: Ciphertext, pub b: Ciphertext, pub c: Ciphertext, pub plain: Plaintext, pub target: ParmsID, pub elt: usize, pub steps: isize, pub garbage: Ciphertext,
    pub seeded_keys: bool, pub foreign_keys: bool,
    /// Some(sel): every key of the key objects carries one residue equal to its modulus (polynomial and position from sel)
    pub key_corr: Option<u16> }

/// key objects in which every member key has one residue equal to its modulus, in polynomial `sel & 1` (0: c0, 1: c1)
fn corrupt_keys(w: &World, keys: &KSwitchKeys, sel: u16) -> KSwitchKeys {
    let kd = w.context.key_context_data().unwrap();
    let moduli: Vec<u64> = kd.parms().coeff_modulus().iter().map(|m| m.value()).collect();
    let n = kd.parms().poly_modulus_degree(); let k = moduli.len();
    let mut out = keys.clone();
    let poly = (sel & 1) as usize; let comp = ((sel >> 1) as usize) % k; let idx = ((sel >> 5) as usize) % n;
    for slot in out.data_mut().iter_mut() { for pk in slot.iter_mut() {
        let pos = poly * k * n + comp * n + idx;
        if pos < pk.data().len() { pk.data_mut()[pos] = moduli[comp]; }
    } }
    out
}

/// a plaintext destination that was used before: other length, scrambled words, another scale
fn used_plain(p: &Plaintext) -> Plaintext {
    let mut d = p.clone();
    let len = d.data().len();
    if !d.is_ntt_form() { d.resize(len + 5); } // (an NTT-form plaintext cannot be resized through the public API)
    for (i, x) in d.data_mut().iter_mut().enumerate() { *x = x.wrapping_mul(3).wrapping_add(11 + i as u64); }
    d.set_scale(3.25);
    d
}

/// execute one entry point through one API form; panics propagate to the caller's `catch`
pub fn run_form(env: &Env, ep: Ep, form: FormK, o: &Operands) -> Snap {
    let ev = &env.w.evaluator;
    let mut rk_f; let mut gk_f; let mut ksk_f;
    let (rk, gk, ksk): (&RelinKeys, &GaloisKeys, &KSwitchKeys) = if let Some(sel) = o.key_corr {
        rk_f = RelinKeys::new(corrupt_keys(&env.w, env.rk.as_kswitch_keys(), sel)); gk_f = GaloisKeys::new(corrupt_keys(&env.w, env.gk.as_kswitch_keys(), sel)); ksk_f = corrupt_keys(&env.w, &env.ksk, sel);
        (&rk_f, &gk_f, &ksk_f)
    } else if o.seeded_keys { (&env.rk_seeded, &env.gk_seeded, &env.ksk_seeded) } else if o.foreign_keys {
        rk_f = env.rk.clone(); rk_f.set_parms_id([9, 9, 9, 9]); gk_f = env.gk.clone(); gk_f.set_parms_id([9, 9, 9, 9]); ksk_f = env.ksk.clone(); ksk_f.set_parms_id([9, 9, 9, 9]);
        (&rk_f, &gk_f, &ksk_f)
    } else { (&env.rk, &env.gk, &env.ksk) };
    macro_rules! ct3 {
        ($inpl:expr, $dest:expr, $new:expr) => { match form {
            FormK::Inplace => { let mut x = o.a.clone(); $inpl(&mut x); Snap::Ct(snap_ct(&x)) }
            FormK::Dest => { let mut d = o.garbage.clone(); $dest(&mut d); Snap::Ct(snap_ct(&d)) }
            FormK::New => Snap::Ct(snap_ct(&$new())),
        } };
    }
    macro_rules! pt3 {
        ($inpl:expr, $dest:expr, $new:expr) => { match form {
            FormK::Inplace => { let mut x = o.plain.clone(); $inpl(&mut x); Snap::Pt(snap_pt(&x)) }
            FormK::Dest => { let mut d = used_plain(&o.plain); $dest(&mut d); Snap::Pt(snap_pt(&d)) }
            FormK::New => Snap::Pt(snap_pt(&$new())),
        } };
    }
    match ep {
        Ep::Negate => ct3!(|x: &mut Ciphertext| ev.negate_inplace(x), |d: &mut Ciphertext| ev.negate(&o.a, d), || ev.negate_new(&o.a)),
        Ep::Add => ct3!(|x: &mut Ciphertext| ev.add_inplace(x, &o.b), |d: &mut Ciphertext| ev.add(&o.a, &o.b, d), || ev.add_new(&o.a, &o.b)),
        Ep::Sub => ct3!(|x: &mut Ciphertext| ev.sub_inplace(x, &o.b), |d: &mut Ciphertext| ev.sub(&o.a, &o.b, d), || ev.sub_new(&o.a, &o.b)),
        Ep::AddMany => { let v = [o.a.clone(), o.b.clone(), o.c.clone()];
            ct3!(|x: &mut Ciphertext| { ev.add_inplace(x, &o.b); ev.add_inplace(x, &o.c) }, |d: &mut Ciphertext| ev.add_many(&v, d), || ev.add_many_new(&v)) }
        Ep::Multiply => ct3!(|x: &mut Ciphertext| ev.multiply_inplace(x, &o.b), |d: &mut Ciphertext| ev.multiply(&o.a, &o.b, d), || ev.multiply_new(&o.a, &o.b)),
        Ep::Square => ct3!(|x: &mut Ciphertext| ev.square_inplace(x), |d: &mut Ciphertext| ev.square(&o.a, d), || ev.square_new(&o.a)),
        Ep::AddPlain => ct3!(|x: &mut Ciphertext| ev.add_plain_inplace(x, &o.plain), |d: &mut Ciphertext| ev.add_plain(&o.a, &o.plain, d), || ev.add_plain_new(&o.a, &o.plain)),
        Ep::SubPlain => ct3!(|x: &mut Ciphertext| ev.sub_plain_inplace(x, &o.plain), |d: &mut Ciphertext| ev.sub_plain(&o.a, &o.plain, d), || ev.sub_plain_new(&o.a, &o.plain)),
        Ep::MultiplyPlain => ct3!(|x: &mut Ciphertext| ev.multiply_plain_inplace(x, &o.plain), |d: &mut Ciphertext| ev.multiply_plain(&o.a, &o.plain, d), || ev.multiply_plain_new(&o.a, &o.plain)),
        Ep::ToNtt => ct3!(|x: &mut Ciphertext| ev.transform_to_ntt_inplace(x), |d: &mut Ciphertext| ev.transform_to_ntt(&o.a, d), || ev.transform_to_ntt_new(&o.a)),
        Ep::FromNtt => ct3!(|x: &mut Ciphertext| ev.transform_from_ntt_inplace(x), |d: &mut Ciphertext| ev.transform_from_ntt(&o.a, d), || ev.transform_from_ntt_new(&o.a)),
        Ep::Relinearize => ct3!(|x: &mut Ciphertext| ev.relinearize_inplace(x, rk), |d: &mut Ciphertext| ev.relinearize(&o.a, rk, d), || ev.relinearize_new(&o.a, rk)),
        Ep::ModSwitchToNext => ct3!(|x: &mut Ciphertext| ev.mod_switch_to_next_inplace(x), |d: &mut Ciphertext| ev.mod_switch_to_next(&o.a, d), || ev.mod_switch_to_next_new(&o.a)),
        Ep::ModSwitchTo => ct3!(|x: &mut Ciphertext| ev.mod_switch_to_inplace(x, &o.target), |d: &mut Ciphertext| ev.mod_switch_to(&o.a, &o.target, d), || ev.mod_switch_to_new(&o.a, &o.target)),
        Ep::RescaleToNext => ct3!(|x: &mut Ciphertext| ev.rescale_to_next_inplace(x), |d: &mut Ciphertext| ev.rescale_to_next(&o.a, d), || ev.rescale_to_next_new(&o.a)),
        Ep::RescaleTo => ct3!(|x: &mut Ciphertext| ev.rescale_to_inplace(x, &o.target), |d: &mut Ciphertext| ev.rescale_to(&o.a, &o.target, d), || ev.rescale_to_new(&o.a, &o.target)),
        Ep::ApplyGalois => ct3!(|x: &mut Ciphertext| ev.apply_galois_inplace(x, o.elt, gk), |d: &mut Ciphertext| ev.apply_galois(&o.a, o.elt, gk, d), || ev.apply_galois_new(&o.a, o.elt, gk)),
        Ep::RotateRows => ct3!(|x: &mut Ciphertext| ev.rotate_rows_inplace(x, o.steps, gk), |d: &mut Ciphertext| ev.rotate_rows(&o.a, o.steps, gk, d), || ev.rotate_rows_new(&o.a, o.steps, gk)),
        Ep::RotateColumns => ct3!(|x: &mut Ciphertext| ev.rotate_columns_inplace(x, gk), |d: &mut Ciphertext| ev.rotate_columns(&o.a, gk, d), || ev.rotate_columns_new(&o.a, gk)),
        Ep::RotateVector => ct3!(|x: &mut Ciphertext| ev.rotate_vector_inplace(x, o.steps, gk), |d: &mut Ciphertext| ev.rotate_vector(&o.a, o.steps, gk, d), || ev.rotate_vector_new(&o.a, o.steps, gk)),
        Ep::ComplexConjugate => ct3!(|x: &mut Ciphertext| ev.complex_conjugate_inplace(x, gk), |d: &mut Ciphertext| ev.complex_conjugate(&o.a, gk, d), || ev.complex_conjugate_new(&o.a, gk)),
        Ep::ApplyKeyswitching => ct3!(|x: &mut Ciphertext| ev.apply_keyswitching_inplace(x, ksk), |d: &mut Ciphertext| ev.apply_keyswitching(&o.a, ksk, d), || ev.apply_keyswitching_new(&o.a, ksk)),
        Ep::TransformPlainToNtt => pt3!(|x: &mut Plaintext| ev.transform_plain_to_ntt_inplace(x, &o.target), |d: &mut Plaintext| ev.transform_plain_to_ntt(&o.plain, &o.target, d), || ev.transform_plain_to_ntt_new(&o.plain, &o.target)),
        Ep::ModSwitchToNextPlain => pt3!(|x: &mut Plaintext| ev.mod_switch_to_next_plain_inplace(x), |d: &mut Plaintext| ev.mod_switch_to_next_plain(&o.plain, d), || ev.mod_switch_to_next_plain_new(&o.plain)),
        Ep::ModSwitchPlainTo => pt3!(|x: &mut Plaintext| ev.mod_switch_plain_to_inplace(x, &o.target), |d: &mut Plaintext| ev.mod_switch_plain_to(&o.plain, &o.target, d), || ev.mod_switch_plain_to_new(&o.plain, &o.target)),
        Ep::ApplyGaloisPlain => pt3!(|x: &mut Plaintext| ev.apply_galois_plain_inplace(x, o.elt), |d: &mut Plaintext| ev.apply_galois_plain(&o.plain, o.elt, d), || ev.apply_galois_plain_new(&o.plain, o.elt)),
    }
}

fn uses(ep: Ep) -> (bool, bool, bool, bool) { // (a, b, c, plain)
    match ep {
        Ep::Add | Ep::Sub | Ep::Multiply => (true, true, false, false),
        Ep::AddMany => (true, true, true, false),
        Ep::AddPlain | Ep::SubPlain | Ep::MultiplyPlain => (true, false, false, true),
        Ep::TransformPlainToNtt | Ep::ModSwitchToNextPlain | Ep::ModSwitchPlainTo | Ep::ApplyGaloisPlain => (false, false, false, true),
        _ => (true, false, false, false),
    }
}
fn uses_keys(ep: Ep) -> bool { matches!(ep, Ep::Relinearize | Ep::ApplyGalois | Ep::RotateRows | Ep::RotateColumns | Ep::RotateVector | Ep::ComplexConjugate | Ep::ApplyKeyswitching) }

/// single-field corruption of a ciphertext; returns None if not applicable. The result is invalid by construction.
fn corrupt_ct(w: &World, ct: &Ciphertext, kind: u8, pos: u16) -> Option<(Ciphertext, &'static str)> {
    let mut s = snap_ct(ct);
    if s.data.is_empty() { return None; }
    let lvl = w.level_index(&s.id)?;
    let moduli = &w.levels[lvl].moduli;
    let i = pick_idx(pos, s.data.len());
    let comp = (i / s.deg) % s.cms;
    let bfv_bgv = w.ps.scheme != Scheme::CKKS;
    let what = match kind {
        0 => { s.data[i] = moduli[comp]; "residue equal to its modulus" }
        1 => { s.data[i] = u64::MAX - (pos as u64 % 2); "residue 2^64-1" } // note: may coincide with the seed flag at poly(1)[0]; still invalid
        2 => { s.id = [0x1234, 5, 6, 7]; "foreign parms_id" }
        3 => { let other = (lvl + 1) % w.levels.len(); if other == lvl { return None; } s.id = w.levels[other].parms_id; "parms_id of another level" }
        4 => { s.size = 1; "size field 1" }
        5 => { s.size = 17; "size field 17" }
        6 => { s.cms += 1; "coeff_modulus_size + 1" }
        7 => { s.deg *= 2; "poly_modulus_degree doubled" }
        8 => { s.data.push(0); "data one word longer than the metadata says" }
        9 => { s.data.pop(); "data one word shorter than the metadata says" }
        10 => { if bfv_bgv { s.scale = 2.0f64.to_bits(); "scale 2.0 in BFV/BGV" } else { s.scale = 0.0f64.to_bits(); "scale 0 in CKKS" } }
        11 => { if w.ps.scheme == Scheme::BGV { s.cf = 0; "BGV correction factor 0" } else { s.cf = 2; "correction factor 2 outside BGV" } }
        12 => { if w.ps.scheme == Scheme::BGV { s.cf = w.t() + 1; "BGV correction factor t+1" } else { return None; } }
        13 => { if s.size != 2 { return None; } let d = s.deg * s.cms; s.data[d] = u64::MAX; "seed flag set (not expanded)" }
        14 => { s.id = *w.context.key_parms_id(); if w.context.key_parms_id() == w.context.first_parms_id() { return None; } "key-level parms_id" }
        15 | 16 => {
            // an internally consistent ciphertext that lives at the key level (sizes, residues and buffer length all right): not an operand
            if w.context.key_parms_id() == w.context.first_parms_id() { return None; }
            let pk = catch(|| w.keygen.create_public_key(false)).ok()?;
            let mut k = pk.as_ciphertext().clone();
            if kind == 16 && w.ps.scheme == Scheme::BFV { k.set_is_ntt_form(false); }
            return Some((k, "well-formed ciphertext at the key level"));
        }
        _ => return None,
    };
    Some((ct_from(&s), what))
}

fn corrupt_pt(w: &World, p: &Plaintext, kind: u8, pos: u16) -> Option<(Plaintext, &'static str)> {
    let mut q = p.clone();
    if q.data().is_empty() { return None; }
    let i = pick_idx(pos, q.data().len());
    let what = match kind {
        0 | 1 => {
            if q.is_ntt_form() { let lvl = w.level_index(q.parms_id())?; let comp = i / w.n; q.data_mut()[i] = w.levels[lvl].moduli[comp]; "NTT plaintext residue equal to its modulus" }
            else if w.ps.scheme != Scheme::CKKS { q.data_mut()[i] = w.t(); "plaintext coefficient equal to t" } else { return None; }
        }
        2 => { if !q.is_ntt_form() { return None; } q.set_parms_id([0x77, 1, 2, 3]); "foreign parms_id" }
        3 => { q.data_mut().push(0); "data longer than coeff_count" }
        4 => { if q.is_ntt_form() { return None; } let n = w.n; let mut d = q.data().clone(); d.resize(n + 1, 0); d[n] = 1; *q.data_mut() = d; q.set_coeff_count(n + 1); "coefficient count N+1" }
        5 => { if !q.is_ntt_form() { return None; } q.set_coeff_count(q.coeff_count() - 1); q.data_mut().pop(); "NTT plaintext one coefficient short" }
        _ => return None,
    };
    Some((q, what))
}

pub fn build_env(ps: &ParamSet) -> Result<Env, String> {
    let w = World::new(ps)?;
    let rk = catch(|| w.keygen.create_relin_keys(false)).map_err(|p| format!("create_relin_keys: {p}"))?;
    let gk = catch(|| w.keygen.create_galois_keys(false)).map_err(|p| format!("create_galois_keys: {p}"))?;
    let other = KeyGenerator::new(w.context.clone());
    let ksk = catch(|| w.keygen.create_keyswitching_key(other.secret_key(), false)).map_err(|p| format!("create_keyswitching_key: {p}"))?;
    let rk_seeded = catch(|| w.keygen.create_relin_keys(true)).map_err(|p| format!("create_relin_keys(seed): {p}"))?;
    let gk_seeded = catch(|| w.keygen.create_galois_keys(true)).map_err(|p| format!("create_galois_keys(seed): {p}"))?;
    let ksk_seeded = catch(|| w.keygen.create_keyswitching_key(other.secret_key(), true)).map_err(|p| format!("create_keyswitching_key(seed): {p}"))?;
    Ok(Env { w, rk, gk, ksk, rk_seeded, gk_seeded, ksk_seeded })
}

fn oracle(c: &FormsCase) -> Verdict {
    let env = match build_env(&c.ps) { Ok(e) => e, Err(e) => return fail_key("harness/params", e) };
    let w = &env.w; let ev = &w.evaluator;
    let n = w.n; let t = w.t(); let nlev = w.levels.len();
    let scheme = w.ps.scheme;
    let mut f = Fails::new();
    // ---------------- plaintext pool: coefficient form, batch-encoded, NTT form at several levels
    let mut plains: Vec<Plaintext> = vec![];
    let mut cts: Vec<Ciphertext> = vec![];
    match scheme {
        Scheme::CKKS => {
            let enc = CKKSEncoder::new(w.context.clone());
            let vals: Vec<Complex64> = c.cvals.iter().map(|(a, b)| Complex64::new(*a as f64 / 2f64.powi(30), *b as f64 / 2f64.powi(30))).collect();
            let scale = 2f64.powi(20);
            for l in 0..nlev.min(3) { if let Ok(p) = catch(|| enc.encode_c64_array_new(&vals, Some(w.levels[l].parms_id), scale)) { plains.push(p); } }
            if let Ok(p) = catch(|| enc.encode_f64_single_new(1.5, None, scale)) { plains.push(p); }
            for p in plains.iter().take(2) { if p.parms_id() == &w.levels[0].parms_id { if let Ok(ct) = catch(|| w.encryptor.encrypt_new(p)) { cts.push(ct); } } }
            if let Ok(ct) = catch(|| w.encryptor.encrypt_symmetric_new(&plains[0]).expand_seed(&w.context)) { cts.push(ct); }
        }
        _ => {
            let be = BatchEncoder::new(w.context.clone());
            let vals: Vec<u64> = c.coeffs.iter().map(|(s, r)| plain_value(*s, *r, t)).collect();
            plains.push(be.encode_polynomial_new(&vals));
            plains.push(be.encode_polynomial_new(&vals[..(n / 2).max(1)]));
            if w.batching { plains.push(be.encode_new(&vals)); }
            plains.push(be.encode_polynomial_new(&[vals[0].max(1)]));
            for l in 0..nlev.min(3) { if let Ok(p) = catch(|| ev.transform_plain_to_ntt_new(&plains[0], &w.levels[l].parms_id)) { plains.push(p); } }
            for p in plains.iter().take(2) { if let Ok(ct) = catch(|| w.encryptor.encrypt_new(p)) { cts.push(ct); } }
            if let Ok(ct) = catch(|| w.encryptor.encrypt_symmetric_new(&plains[0])) { if ct.contains_seed() { cts.push(ct.expand_seed(&w.context)); } else { cts.push(ct); } }
        }
    }
    if cts.is_empty() || plains.is_empty() { return fail("could not build the initial pool"); }
    // ---------------- reach varied states (sizes, levels, representations); failures are simply skipped
    for (k, a, b) in &c.build {
        let x = cts[pick_idx(*a, cts.len())].clone(); let y = cts[pick_idx(*b, cts.len())].clone();
        let r = catch(|| match k { 0 => ev.multiply_new(&x, &y), 1 => ev.square_new(&x), 2 => ev.relinearize_new(&x, &env.rk), 3 | 4 => ev.mod_switch_to_next_new(&x),
            5 => if scheme == Scheme::CKKS { ev.rescale_to_next_new(&x) } else { ev.transform_to_ntt_new(&x) }, 6 => ev.transform_from_ntt_new(&x), 7 => ev.add_new(&x, &y),
            8 => ev.multiply_plain_new(&x, &plains[pick_idx(*b, plains.len())]), _ => ev.negate_new(&x) });
        if let Ok(ct) = r { if cts.len() < 12 { cts.push(ct); } }
    }
    let garbage = catch(|| w.encryptor.encrypt_zero_new()).unwrap_or_default();
    let (mut agree, mut refused_consistently, mut corruptions, mut nonfresh) = (0u64, 0u64, 0u64, false);
    let mut labels: Vec<String> = vec![];
    for ts in &c.tests {
        let a = cts[pick_idx(ts.a, cts.len())].clone();
        // second operand: prefer one at the same level / representation so that binary operations are often well-typed
        let same: Vec<&Ciphertext> = cts.iter().filter(|x| x.parms_id() == a.parms_id() && x.is_ntt_form() == a.is_ntt_form()).collect();
        let b = if ts.cwhich & 1 == 0 && !same.is_empty() { same[pick_idx(ts.b, same.len())].clone() } else { cts[pick_idx(ts.b, cts.len())].clone() };
        let cc = if !same.is_empty() { same[pick_idx(ts.c, same.len())].clone() } else { a.clone() };
        let plain = plains[pick_idx(ts.p, plains.len())].clone();
        // plaintexts live on data levels only (a key-level plaintext is not a valid object), so that target is a data level for TransformPlainToNtt
        let tl = if ts.ep == Ep::TransformPlainToNtt { pick_idx(ts.tgt, nlev) } else { pick_idx(ts.tgt, nlev + 1) };
        let target = if tl < nlev { w.levels[tl].parms_id } else { *w.context.key_parms_id() };
        let half = (n / 2) as isize;
        let steps = if half > 1 { let s = (ts.step as isize).rem_euclid(2 * half - 1) - (half - 1); if s == 0 { 1 } else { s } } else { 1 };
        let elt = (2 * (ts.step as usize % n) + 1) % (2 * n);
        let o = Operands { a, b, c: cc, plain, target, elt, steps, garbage: garbage.clone(), seeded_keys: false, foreign_keys: false, key_corr: None };
        let before = (snap_ct(&o.a), snap_ct(&o.b), snap_ct(&o.c), snap_pt(&o.plain));
        let r_new = catch(|| run_form(&env, ts.ep, FormK::New, &o));
        let r_dest = catch(|| run_form(&env, ts.ep, FormK::Dest, &o));
        let r_inpl = catch(|| run_form(&env, ts.ep, FormK::Inplace, &o));
        let key = format!("C06/{:?}/{:?}", scheme, ts.ep);
        let state = format!("operand a: size {} level {:?} ntt {}", o.a.size(), w.level_index(o.a.parms_id()), o.a.is_ntt_form());
        if (snap_ct(&o.a), snap_ct(&o.b), snap_ct(&o.c), snap_pt(&o.plain)) != before { f.add(format!("{key}/operand-modified"), format!("{:?}: a read-only operand was modified ({state})", ts.ep)); }
        match (&r_new, &r_dest, &r_inpl) {
            (Ok(x), Ok(y), Ok(z)) => {
                if x != y { f.add(format!("{key}/forms"), format!("{:?}: destination form differs from the value-returning form ({state})", ts.ep)); }
                if x != z { f.add(format!("{key}/forms"), format!("{:?}: in-place form differs from the value-returning form ({state})", ts.ep)); }
                agree += 1;
                if o.a.size() > 2 || w.level_index(o.a.parms_id()).unwrap_or(0) > 0 || o.a.is_ntt_form() != (scheme != Scheme::BFV) { nonfresh = true; }
                // (a) the result is valid and accepted by a follow-up operation
                match x {
                    Snap::Ct(s) => {
                        let r = ct_from(s);
                        if !r.is_valid_for(&w.context) { f.add(format!("{key}/invalid-result"), format!("{:?}: result is not valid for the context ({state})", ts.ep)); }
                        else if r.size() >= 2 && catch(|| ev.add_new(&r, &r)).is_err() { f.add(format!("{key}/invalid-result"), format!("{:?}: result rejected by a follow-up add with itself ({state})", ts.ep)); }
                    }
                    Snap::Pt(s) => {
                        let mut p = Plaintext::new(); *p.data_mut() = s.data.clone(); p.set_coeff_count(s.cc); p.set_parms_id(s.id); p.set_scale(f64::from_bits(s.scale));
                        if !p.is_valid_for(&w.context) { f.add(format!("{key}/invalid-result"), format!("{:?}: resulting plaintext is not valid for the context", ts.ep)); }
                    }
                }
                // (c) single-field corruptions of otherwise valid operands must be refused
                let (ua, ub, uc, up) = uses(ts.ep);
                let noop = (matches!(ts.ep, Ep::ModSwitchTo | Ep::RescaleTo) && &o.target == o.a.parms_id()) || (ts.ep == Ep::ModSwitchPlainTo && &o.target == o.plain.parms_id());
                let mut bad = o.clone();
                let mut what: Option<String> = None;
                let which = ts.cwhich % 4;
                if ts.corr >= 20 && uses_keys(ts.ep) {
                    // (the library silently stores no seed when a key polynomial is too small to hold one)
                    // (a key whose data is out of range has to be refused where it is used: relinearizing a 2-component ciphertext touches no key)
                    if ts.corr % 3 == 2 && !(ts.ep == Ep::Relinearize && o.a.size() < 3) { bad.key_corr = Some(ts.cpos); what = Some(format!("keys with one residue equal to its modulus in polynomial {}", ts.cpos & 1)); }
                    else if ts.corr % 3 == 0 && env.rk_seeded.contains_seed() && env.gk_seeded.contains_seed() && env.ksk_seeded.contains_seed() { bad.seeded_keys = true; what = Some("seed-compressed keys".into()); } else { bad.foreign_keys = true; what = Some("keys with a foreign parms_id".into()); }
                } else if up && (which == 3 || !ua) {
                    if let Some((p, wh)) = corrupt_pt(w, &o.plain, ts.corr % 6, ts.cpos) { bad.plain = p; what = Some(format!("plaintext: {wh}")); }
                } else if ua && ub && ts.corr % 5 == 4 && matches!(ts.ep, Ep::Add | Ep::Sub | Ep::Multiply) {
                    // a perfectly valid object in the representation this operation does not accept next to the other operand:
                    // the operation just succeeded on (a, b), so flipping the representation of exactly one of them must be refused
                    let flip = |x: &Ciphertext| catch(|| if x.is_ntt_form() { ev.transform_from_ntt_new(x) } else { ev.transform_to_ntt_new(x) }).ok();
                    if which % 2 == 0 { if let Some(x2) = flip(&o.b) { bad.b = x2; what = Some("operand b: valid ciphertext in the other representation".into()); } }
                    else if let Some(x2) = flip(&o.a) { bad.a = x2; what = Some("operand a: valid ciphertext in the other representation".into()); }
                } else if ua {
                    let tgt_op = if which == 1 && ub { 1 } else if which == 2 && uc { 2 } else { 0 };
                    let src = match tgt_op { 1 => &o.b, 2 => &o.c, _ => &o.a };
                    if let Some((x2, wh)) = corrupt_ct(w, src, ts.corr % 17, ts.cpos) {
                        match tgt_op { 1 => bad.b = x2, 2 => bad.c = x2, _ => bad.a = x2 }
                        what = Some(format!("ciphertext operand {}: {wh}", ["a", "b", "c"][tgt_op]));
                    }
                }
                let noop = noop || (matches!(ts.ep, Ep::ModSwitchTo | Ep::RescaleTo) && &bad.target == bad.a.parms_id()) || (ts.ep == Ep::ModSwitchPlainTo && &bad.target == bad.plain.parms_id());
                if let (Some(wh), false) = (what, noop) {
                    corruptions += 1;
                    if !refuses(|| run_form(&env, ts.ep, FormK::New, &bad)) { f.add(format!("{key}/not-refused"), format!("{:?} computed on an invalid operand instead of refusing it ({wh}; {state})", ts.ep)); }
                    if !refuses(|| run_form(&env, ts.ep, FormK::Inplace, &bad)) { f.add(format!("{key}/not-refused"), format!("{:?} (in-place form) computed on an invalid operand instead of refusing it ({wh}; {state})", ts.ep)); }
                    if !refuses(|| run_form(&env, ts.ep, FormK::Dest, &bad)) { f.add(format!("{key}/not-refused"), format!("{:?} (destination form) computed on an invalid operand instead of refusing it ({wh}; {state})", ts.ep)); }
                }
                labels.push(format!("{:?}", ts.ep));
            }
            (Err(_), Err(_), Err(_)) => { refused_consistently += 1; }
            _ => {
                let st = |r: &Result<Snap, String>| match r { Ok(_) => "returned".to_string(), Err(p) => format!("panicked ({})", p.chars().take(80).collect::<String>()) };
                f.add(format!("{key}/forms-disagree-on-refusal"), format!("{:?}: value-returning form {}, destination form {}, in-place form {} ({state})", ts.ep, st(&r_new), st(&r_dest), st(&r_inpl)));
            }
        }
    }
    let mut info = Info::new(agree > 0 && (nonfresh || corruptions > 0)).evals(3 * c.tests.len() as u64 + 3 * corruptions).label(format!("{:?}", scheme))
        .label_if(corruptions > 0, "corruption checked").label_if(nonfresh, "non-fresh operand state").label_if(refused_consistently > 0, "ill-typed: all forms refuse");
    for l in labels { info = info.label(format!("ok:{l}")); }
    f.verdict(info)
}

pub fn def() -> PropertyDef {
    PropertyDef {
        id: "C06",
        level: "exploration",
        rule: "operand states reached by random build sequences (multiply, square, relinearize, mod switch, rescale, representation changes, plaintext products) in BFV, BGV and CKKS; for each of 26 evaluator entry points the in-place, destination (pre-filled with an unrelated ciphertext / a scrambled plaintext of another length and scale) and value-returning forms are executed on the same operands: all three must either return word-for-word identical objects (and leave read-only operands unchanged, and the result must be valid and accepted by a follow-up add) or all three must refuse. Where they succeed, one operand is corrupted in a single field (residue = q_i / 2^64-1, foreign / other-level / key-level parms id, size 1 / 17, coeff_modulus_size or degree off, buffer length off by one, scale, correction factor, seed flag; plaintext coefficient = t, NTT residue = q_i, foreign id, wrong length; seed-compressed or foreign keys, or keys with one out-of-range residue in either polynomial) and every form must refuse. non-trivial: forms agreed on a non-fresh operand state, or a corruption was exercised.",
        assumptions: vec!["any panic counts as a refusal (the library's convention)", "no-op requests (target level = current level) are excluded from the refusal clause because nothing is computed"],
        subs: vec![Sub::prop("forms_and_corruptions", 200_000, 1_500_000, 0.3, forms_case, oracle)],
    }
}
