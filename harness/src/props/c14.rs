//! C14 — serialization round-trips every object exactly, sizes exact, across contexts.
use crate::gen::params::*;
use crate::runner::*;
use crate::zoo::*;
use heathcliff::*;
use proptest::prelude::*;

#[derive(Clone, Debug, serde::Serialize, serde::Deserialize)]
pub struct SerCase { pub ps: ParamSet, pub obj: ZooSpec, pub neighbour: u64 }

pub fn ser_cfg(tier: Tier, small: bool) -> ParamCfg {
    // prime sizes 2..60 bits => 1..8 bytes per residue; at least two primes most of the time so that key material exists
    ParamCfg { schemes: vec![Scheme::BFV, Scheme::BGV, Scheme::CKKS], logn_lo: 1, logn_hi: if small { 3 } else { tier.pick(5, 7) }, logn_small: if small { 2 } else { 3 }, k_lo: 1, k_hi: 5, bits_lo: 2, bits_hi: 60,
        t_kind: TKind::Any, t_bits_lo: 2, t_bits_hi: 40, need_keyswitching: false, allow_special_flag: true, always_expand: true }
}

pub fn zoo_spec(logn_hi: u32) -> BoxedStrategy<ZooSpec> {
    let n = 1usize << logn_hi;
    (0u8..KINDS, any::<u8>(), proptest::collection::vec(any::<u16>(), 0..6), proptest::collection::vec(any::<u8>(), 3), proptest::collection::vec((any::<u8>(), any::<u64>()), n), proptest::collection::vec(any::<u16>(), 0..4), 0u8..8)
        .prop_map(|(kind, state, terms, dims, coeffs, elts, tmode)| {
            let terms = match tmode { 0 => vec![], 1 => (0..64u32).map(|i| (i * 1024) as u16).collect(), _ => terms };
            ZooSpec { kind, state, terms, dims, coeffs, elts }
        }).boxed()
}

fn ser_case(tier: Tier) -> BoxedStrategy<SerCase> {
    let hi = tier.pick(5, 7);
    (ser_cfg(tier, false).strategy(), zoo_spec(hi), any::<u64>()).prop_map(|(ps, obj, neighbour)| SerCase { ps, obj, neighbour }).boxed()
}

fn oracle(c: &SerCase) -> Verdict {
    let need_r = matches!(c.obj.kind % KINDS, 22 | 23 | 24 | 25 | 27 | 28);
    let e = match zoo_env(&c.ps, need_r) { Ok(e) => e, Err(m) => return fail_key("harness/params", m) };
    let x = match build(&e, &c.obj) { Ok(Some(x)) => x, Ok(None) => return Verdict::Pass(Info::new(false).label("kind not available under these parameters")), Err(m) => return fail(format!("building the object failed: {m}")) };
    let name = x.name(); let key = format!("C14/{name}");
    let w = &e.w;
    // 1. serialize: returned count = announced size = bytes appended
    let mut buf: Vec<u8> = vec![];
    let n = match catch(|| x.serialize(&e, &mut buf)) { Ok(Ok(n)) => n, Ok(Err(er)) => return fail_key(key, format!("{name}: serialize returned an error on a valid object: {er}")), Err(p) => return fail_key(key, format!("{name}: serialize panicked: {p}")) };
    let announced = match catch(|| x.size(&e)) { Ok(s) => s, Err(p) => return fail_key(key, format!("{name}: serialized_size panicked: {p}")) };
    check!(n == buf.len(), "{name}: serialize returned {n} but appended {} bytes", buf.len());
    if announced != buf.len() { return fail_key(format!("{key}/size"), format!("{name}: announced serialized size {announced} but {} bytes were written (seeded: {})", buf.len(), x.is_seeded())); }
    // 2. framing: the object sits between two neighbours in one stream and is recovered independently
    let mut stream: Vec<u8> = vec![];
    let pre = Zoo::Params(build_params(&w.ps));
    pre.serialize(&e, &mut stream).unwrap();
    stream.extend_from_slice(&buf);
    Serializable::serialize(&c.neighbour, &mut stream).unwrap();
    let mut rd: &[u8] = &stream;
    let p2 = match catch(|| pre.deserialize_like(&w.context, e.rctx.as_ref(), &mut rd)) { Ok(Ok(Zoo::Params(p))) => p, _ => return fail("could not read back the leading parameters") };
    let r = match catch(|| x.deserialize_like(&w.context, e.rctx.as_ref(), &mut rd)) { Ok(Ok(r)) => r, Ok(Err(er)) => return fail_key(key, format!("{name}: deserialize of a complete encoding failed: {er}")), Err(p) => return fail_key(key, format!("{name}: deserialize panicked on a complete encoding: {p}")) };
    if rd.len() != 8 { return fail_key(format!("{key}/consumed"), format!("{name}: deserialize consumed {} bytes of a {}-byte encoding", stream.len() - pre.size(&e) - rd.len(), buf.len())); }
    let nb = <u64 as Serializable>::deserialize(&mut rd).unwrap();
    check!(nb == c.neighbour, "{name}: the object following in the stream was corrupted");
    // 3. equality with the (seed-expanded / term-restricted) original
    let want = match catch(|| x.canon(&e, true)) { Ok(c) => c, Err(p) => return fail(format!("computing the expected form panicked: {p}")) };
    let got = r.canon(&e, false);
    if got != want { return fail_key(format!("{key}/roundtrip"), format!("{name}: deserialize(serialize(x)) differs from {} (seeded {}, state {:#06b}, terms {:?})", if x.is_seeded() { "x.expand_seed()" } else { "x" }, x.is_seeded(), c.obj.state & 15, c.obj.terms.len())); }
    // 4. a context built independently from the serialized parameters restores the same object
    let ctx2 = HeContext::new(p2, c.ps.expand_chain, SecurityLevel::None);
    let mut rd: &[u8] = &buf;
    if !need_r {
        let r2 = match catch(|| x.deserialize_like(&ctx2, None, &mut rd)) { Ok(Ok(r)) => r, Ok(Err(er)) => return fail_key(key, format!("{name}: deserialize in an independently built context failed: {er}")), Err(p) => return fail_key(key, format!("{name}: deserialize in an independently built context panicked: {p}")) };
        if r2.canon(&e, false) != want { return fail_key(format!("{key}/cross-context"), format!("{name}: an independently built context restores a different object")); }
    }
    // 5. interchangeability in a later operation
    if let (Zoo::Ct(orig) | Zoo::CtFull(orig), Zoo::Ct(rest) | Zoo::CtFull(rest)) = (&x, &r) {
        let oe = if orig.contains_seed() { orig.clone().expand_seed(&w.context) } else { orig.clone() };
        let a = catch(|| w.evaluator.add_new(&oe, &oe)); let b = catch(|| w.evaluator.add_new(rest, rest));
        match (a, b) { (Ok(a), Ok(b)) => check!(cts(&a) == cts(&b), "{name}: an operation on the restored ciphertext differs from the same operation on the expanded original"), (Err(_), Err(_)) => {}, _ => return fail_key(key, format!("{name}: restored and original ciphertext are not interchangeable in add")) }
    }
    if let (Zoo::Rk(orig), Zoo::Rk(rest)) = (&x, &r) {
        let oe = if orig.contains_seed() { orig.clone().expand_seed(&w.context) } else { orig.clone() };
        if let Ok(ct) = catch(|| { let p = BatchEncoderOrCkks::plain(w); let c = w.encryptor.encrypt_new(&p); w.evaluator.square_new(&c) }) {
            let a = catch(|| w.evaluator.relinearize_new(&ct, &oe)); let b = catch(|| w.evaluator.relinearize_new(&ct, rest));
            if let (Ok(a), Ok(b)) = (a, b) { check!(cts(&a) == cts(&b), "relinearization with restored keys differs from relinearization with the expanded original keys"); }
        }
    }
    let multi = matches!(&x, Zoo::C1(v) | Zoo::C1T(v, _) if v.data.len() >= 2) || matches!(&x, Zoo::VecCt(v) if v.len() >= 2) || matches!(x, Zoo::C2(_) | Zoo::C3(_) | Zoo::C2T(..) | Zoo::C3T(..) | Zoo::P2(_) | Zoo::P3(_));
    let narrow = c.ps.moduli.iter().any(|m| *m < (1u64 << 56));
    let state = c.obj.state;
    let is_ct = matches!(c.obj.kind % KINDS, 6 | 7 | 8 | 15..=20 | 26);
    Verdict::Pass(Info::new(x.is_seeded() || narrow || multi || (is_ct && state & 6 != 0)).label(name).label_if(x.is_seeded(), "seeded").label_if(narrow, "some prime narrower than 8 bytes").label_if(multi, "container >= 2")
        .label_if(is_ct && state & 2 != 0 && state & 16 == 0, "size 3").label_if(is_ct && state & 18 == 18, "size 4..16 (when the noise-free product chain is accepted)").label_if(is_ct && state & 4 != 0, "lower level"))
}

pub struct BatchEncoderOrCkks;
impl BatchEncoderOrCkks {
    pub fn plain(w: &World) -> Plaintext {
        match w.ps.scheme { Scheme::CKKS => CKKSEncoder::new(w.context.clone()).encode_f64_single_new(1.5, None, 1024.0), _ => BatchEncoder::new(w.context.clone()).encode_polynomial_new(&[1]) }
    }
}

pub fn def() -> PropertyDef {
    PropertyDef {
        id: "C14",
        level: "exploration",
        rule: "random parameter sets (3 schemes, N=2..32 (thorough 128), 1..5 primes of 2..60 bits so residues take 1..8 bytes, all plain-modulus kinds, both flags) x 29 object kinds (parameters, modulus, plaintexts in both forms, secret / public / relinearization / Galois (subset or default) / key-switching keys seeded or not, ciphertexts in compact / full / selected-terms format in states {pk, sk-seeded, size 3, lower level, non-default representation}, 1-/2-/3-dimensional plaintext and ciphertext containers with 0..3 elements per dimension, generic Vec<Ciphertext>, raw polynomials, RNS-plaintext wrapper ciphertexts and keys) x term subsets (empty, all, random, unordered, duplicated). Oracle: returned count = announced size = bytes appended = bytes consumed with neighbours before and after in one stream; restored object equals the original field by field (seeded: equals expand_seed; terms: first polynomial restricted to the chosen coefficients in the coefficient domain); the same in a context rebuilt from the serialized parameters; later operations bit-identical. non-trivial: seeded, or some prime narrower than 8 bytes, or a container with >= 2 elements, or a size-3 / lower-level ciphertext.",
        assumptions: vec!["equality is over all public fields and every data word", "library randomness made replayable through hook H2"],
        subs: vec![Sub::prop("roundtrip", 250_000, 2_000_000, 0.4, ser_case, oracle)],
    }
}
