//! hv — property-based verification harness for Heathcliff (Cookieser/Rust_HE).
//! usage: hv check --property C08 --tier quick|thorough [--seed N] [--root /verif] [--sub NAME]
//!        hv replay --property C08 --file path [--root /verif]
//!        hv selftest

use hv::runner::*;
use hv::{bigint, props, refmath};

fn arg(args: &[String], name: &str) -> Option<String> {
    args.iter().position(|a| a == name).and_then(|i| args.get(i + 1).cloned())
}

fn main() {
    let args: Vec<String> = std::env::args().collect();
    let cmd = args.get(1).map(|s| s.as_str()).unwrap_or("");
    install_panic_hook();
    if let Err(e) = bigint::self_test() { eprintln!("hv: bigint self-test failed: {e}"); std::process::exit(2); }
    if let Err(e) = refmath::self_test() { eprintln!("hv: refmath self-test failed: {e}"); std::process::exit(2); }
    let root = arg(&args, "--root").or_else(|| std::env::var("VERIF_ROOT").ok()).unwrap_or_else(|| "/verif".into());
    let seed: u64 = arg(&args, "--seed").or_else(|| std::env::var("VERIF_SEED").ok()).and_then(|s| s.trim().parse::<i128>().ok()).map(|v| v as u64).unwrap_or(0);
    let threads = std::env::var("HV_THREADS").ok().and_then(|s| s.parse().ok()).unwrap_or_else(|| std::thread::available_parallelism().map(|n| n.get()).unwrap_or(8).min(16));
    let scale = std::env::var("HV_SCALE").ok().and_then(|s| s.parse().ok()).unwrap_or(1.0);
    match cmd {
        "selftest" => { println!("ok"); }
        "check" | "replay" => {
            let property = arg(&args, "--property").unwrap_or_else(|| { eprintln!("--property required"); std::process::exit(2) });
            let tier = match arg(&args, "--tier").or_else(|| std::env::var("VERIF_TIER").ok()).as_deref() { Some("thorough") => Tier::Thorough, _ => Tier::Quick };
            let def = match props::get(&property) { Some(d) => d, None => { eprintln!("hv: unknown property {property}"); std::process::exit(2) } };
            let cfg = RunCfg { property: property.clone(), tier, seed, root: root.clone(), threads, known: load_known(&root), scale };
            let _ = KNOWN_KEYS.set(cfg.known.iter().filter(|f| f.status == "known" && f.property == property).map(|f| f.key.clone()).collect());
            if cmd == "check" {
                let only = arg(&args, "--sub");
                let code = run_property(&def, &cfg, only.as_deref());
                std::process::exit(code);
            } else {
                let file = arg(&args, "--file").unwrap_or_else(|| { eprintln!("--file required"); std::process::exit(2) });
                match replay_file(&def, &cfg, &file, true) {
                    ReplayOutcome::Pass => { println!("PASS property={property} replay={file}"); std::process::exit(0) }
                    ReplayOutcome::Known(k, what) => { println!("KNOWN-FINDING: property={property} {what} [{k}]"); std::process::exit(0) }
                    ReplayOutcome::Fail(_) => { println!("VIOLATION property={property} replay={file}"); std::process::exit(1) }
                    ReplayOutcome::Error(e) => { eprintln!("hv: {e}"); std::process::exit(2) }
                }
            }
        }
        "fuzzcase" => {
            // decode a fuzzer input (bytes) through the sub-check's strategy, print the case and judge it
            let property = arg(&args, "--property").unwrap_or_default(); let sub = arg(&args, "--sub").unwrap_or_default();
            let file = arg(&args, "--file").unwrap_or_default();
            let data = std::fs::read(&file).unwrap_or_else(|e| { eprintln!("hv: {e}"); std::process::exit(2) });
            let def = match props::get(&property) { Some(d) => d, None => { eprintln!("hv: unknown property {property}"); std::process::exit(2) } };
            let s = match def.subs.iter().find(|s| s.name == sub) { Some(s) => s, None => { eprintln!("hv: unknown sub-check {sub}"); std::process::exit(2) } };
            match s.fuzz.as_ref().and_then(|f| f(&data, Tier::Quick)) {
                None => { println!("input does not decode to a case"); std::process::exit(0) }
                Some((case, Verdict::Pass(_))) => { println!("PASS case={}", serde_json::to_string(&shorten(case)).unwrap_or_default()); std::process::exit(0) }
                Some((case, Verdict::Fail { msg, key })) => {
                    let out = arg(&args, "--out");
                    if let Some(o) = &out { let _ = std::fs::write(o, serde_json::to_string_pretty(&serde_json::json!({"property": property, "subcheck": sub, "case": case, "message": msg, "key": key})).unwrap()); }
                    println!("FAIL {msg}"); std::process::exit(1)
                }
            }
        }
        _ => { eprintln!("usage: hv check --property ID --tier quick|thorough | hv replay --property ID --file F"); std::process::exit(2); }
    }
}
