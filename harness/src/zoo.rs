//! The "zoo": one value of every serializable type, reachable through the public API, with uniform
//! serialize / deserialize / size / equality / expand operations. Shared by C14 and C15.
#![allow(dead_code)]

use crate::gen::params::*;
use crate::runner::*;
use crate::shadow::plain_value;
use heathcliff::app::matmul::cipher3d::{Cipher3d, Plain3d};
use heathcliff::app::matmul::{Cipher1d, Cipher2d, Plain1d, Plain2d};
use heathcliff::app::rns_plain::*;
use heathcliff::*;
use num_complex::Complex64;
use std::io::{Read, Result as IoResult, Write};
use std::sync::Arc;

pub const KINDS: u8 = 29;

#[derive(Clone, Debug, serde::Serialize, serde::Deserialize)]
pub struct ZooSpec {
    pub kind: u8,
    /// state selectors for ciphertexts: bit0 seeded(sk), bit1 size 3, bit2 lower level, bit3 non-default representation
    pub state: u8,
    pub terms: Vec<u16>,
    pub dims: Vec<u8>,
    pub coeffs: Vec<(u8, u64)>,
    pub elts: Vec<u16>,
}

pub enum Zoo {
    Params(EncryptionParameters), Modulus(Modulus), Plain(Plaintext), Sk(SecretKey), Pk(PublicKey),
    Ct(Ciphertext), CtFull(Ciphertext), CtTerms(Ciphertext, Vec<usize>),
    Rk(RelinKeys), Gk(GaloisKeys), Ksk(KSwitchKeys),
    P1(Plain1d), P2(Plain2d), P3(Plain3d), C1(Cipher1d), C2(Cipher2d), C3(Cipher3d),
    C1T(Cipher1d, Vec<usize>), C2T(Cipher2d, Vec<usize>), C3T(Cipher3d, Vec<usize>),
    Poly(Vec<u64>, ParmsID), VecCt(Vec<Ciphertext>),
    RCt(RnspCiphertext), RCtFull(RnspCiphertext), RCtTerms(RnspCiphertext, Vec<usize>), RPk(RnspPublicKey), RRk(RnspRelinKeys), RGk(RnspGaloisKeys),
}

pub struct ZooEnv { pub w: World, pub rctx: Option<RnspHeContext> }

type CtS = (usize, usize, usize, Vec<u64>, ParmsID, u64, bool, u64);
pub fn cts(c: &Ciphertext) -> CtS { (c.size(), c.coeff_modulus_size(), c.poly_modulus_degree(), c.data().clone(), *c.parms_id(), c.scale().to_bits(), c.is_ntt_form(), c.correction_factor()) }
type PtS = (usize, Vec<u64>, ParmsID, u64);
pub fn pts(p: &Plaintext) -> PtS { (p.coeff_count(), p.data().clone(), *p.parms_id(), p.scale().to_bits()) }
fn ksks(k: &KSwitchKeys) -> (ParmsID, Vec<Vec<CtS>>) { (*k.parms_id(), k.keys().iter().map(|v| v.iter().map(|p| cts(p.as_ciphertext())).collect()).collect()) }

/// canonical comparable form
#[derive(PartialEq, Debug)]
pub enum Canon { Params(u8, usize, Vec<u64>, u64, ParmsID, bool), U(u64), Pt(PtS), Ct(CtS), Ksk((ParmsID, Vec<Vec<CtS>>)), Cts(Vec<CtS>), Cts2(Vec<Vec<CtS>>), Cts3(Vec<Vec<Vec<CtS>>>),
    Pts(Vec<PtS>), Pts2(Vec<Vec<PtS>>), Pts3(Vec<Vec<Vec<PtS>>>), Words(Vec<u64>), Ksks(Vec<(ParmsID, Vec<Vec<CtS>>)>) }

fn exp(c: &Ciphertext, ctx: &HeContext) -> Ciphertext { if c.contains_seed() { c.clone().expand_seed(ctx) } else { c.clone() } }

/// expected image of a ciphertext under the selected-terms format: first polynomial restricted to the chosen coefficients
fn restrict_terms(w: &World, c: &Ciphertext, terms: &[usize]) -> Ciphertext {
    let mut x = exp(c, &w.context);
    let n = w.n; let k = x.coeff_modulus_size();
    let cd = w.context.get_context_data(x.parms_id()).unwrap();
    let keep: std::collections::HashSet<usize> = terms.iter().cloned().collect();
    for j in 0..k {
        let mut comp = x.poly_component(0, j).to_vec();
        if x.is_ntt_form() { cd.small_ntt_tables()[j].inverse_ntt_negacyclic_harvey(&mut comp); }
        for i in 0..n { if !keep.contains(&i) { comp[i] = 0; } }
        if x.is_ntt_form() { cd.small_ntt_tables()[j].ntt_negacyclic_harvey(&mut comp); }
        x.poly_component_mut(0, j).copy_from_slice(&comp);
    }
    x
}

impl Zoo {
    pub fn name(&self) -> &'static str { match self {
        Zoo::Params(_) => "EncryptionParameters", Zoo::Modulus(_) => "Modulus", Zoo::Plain(_) => "Plaintext", Zoo::Sk(_) => "SecretKey", Zoo::Pk(_) => "PublicKey",
        Zoo::Ct(_) => "Ciphertext", Zoo::CtFull(_) => "Ciphertext(full)", Zoo::CtTerms(..) => "Ciphertext(terms)", Zoo::Rk(_) => "RelinKeys", Zoo::Gk(_) => "GaloisKeys", Zoo::Ksk(_) => "KSwitchKeys",
        Zoo::P1(_) => "Plain1d", Zoo::P2(_) => "Plain2d", Zoo::P3(_) => "Plain3d", Zoo::C1(_) => "Cipher1d", Zoo::C2(_) => "Cipher2d", Zoo::C3(_) => "Cipher3d",
        Zoo::C1T(..) => "Cipher1d(terms)", Zoo::C2T(..) => "Cipher2d(terms)", Zoo::C3T(..) => "Cipher3d(terms)", Zoo::Poly(..) => "Polynomial", Zoo::VecCt(_) => "Vec<Ciphertext>",
        Zoo::RCt(_) => "RnspCiphertext", Zoo::RCtFull(_) => "RnspCiphertext(full)", Zoo::RCtTerms(..) => "RnspCiphertext(terms)", Zoo::RPk(_) => "RnspPublicKey", Zoo::RRk(_) => "RnspRelinKeys", Zoo::RGk(_) => "RnspGaloisKeys" } }

    pub fn serialize<W: Write>(&self, e: &ZooEnv, s: &mut W) -> IoResult<usize> {
        let c = &*e.w.context;
        match self {
            Zoo::Params(p) => Serializable::serialize(p, s), Zoo::Modulus(m) => Serializable::serialize(m, s), Zoo::Plain(p) => Serializable::serialize(p, s), Zoo::Sk(k) => Serializable::serialize(k, s),
            Zoo::Pk(k) => k.serialize(c, s), Zoo::Ct(x) => SerializableWithHeContext::serialize(x, c, s), Zoo::CtFull(x) => x.serialize_full(c, s), Zoo::CtTerms(x, t) => x.serialize_terms(c, t, s),
            Zoo::Rk(k) => k.serialize(c, s), Zoo::Gk(k) => k.serialize(c, s), Zoo::Ksk(k) => k.serialize(c, s),
            Zoo::P1(x) => Serializable::serialize(x, s), Zoo::P2(x) => Serializable::serialize(x, s), Zoo::P3(x) => Serializable::serialize(x, s),
            Zoo::C1(x) => SerializableWithHeContext::serialize(x, c, s), Zoo::C2(x) => SerializableWithHeContext::serialize(x, c, s), Zoo::C3(x) => SerializableWithHeContext::serialize(x, c, s),
            Zoo::C1T(x, t) => x.serialize_terms(c, t, s), Zoo::C2T(x, t) => x.serialize_terms(c, t, s), Zoo::C3T(x, t) => x.serialize_terms(c, t, s),
            Zoo::Poly(d, id) => PolynomialSerializer::serialize_polynomial(c, s, d, *id),
            Zoo::VecCt(v) => SerializableWithHeContext::serialize(v, c, s),
            Zoo::RCt(x) => RnspSerializableWithHeContext::serialize(x, e.rctx.as_ref().unwrap(), s), Zoo::RCtFull(x) => x.serialize_full(e.rctx.as_ref().unwrap(), s), Zoo::RCtTerms(x, t) => x.serialize_terms(e.rctx.as_ref().unwrap(), t, s),
            Zoo::RPk(x) => x.serialize(e.rctx.as_ref().unwrap(), s), Zoo::RRk(x) => x.serialize(e.rctx.as_ref().unwrap(), s), Zoo::RGk(x) => x.serialize(e.rctx.as_ref().unwrap(), s),
        }
    }
    pub fn size(&self, e: &ZooEnv) -> usize {
        let c = &*e.w.context;
        match self {
            Zoo::Params(p) => p.serialized_size(), Zoo::Modulus(m) => m.serialized_size(), Zoo::Plain(p) => p.serialized_size(), Zoo::Sk(k) => k.serialized_size(),
            Zoo::Pk(k) => k.serialized_size(c), Zoo::Ct(x) => x.serialized_size(c), Zoo::CtFull(x) => x.serialized_full_size(c), Zoo::CtTerms(x, t) => x.serialized_terms_size(c, t.len()),
            Zoo::Rk(k) => k.serialized_size(c), Zoo::Gk(k) => k.serialized_size(c), Zoo::Ksk(k) => k.serialized_size(c),
            Zoo::P1(x) => x.serialized_size(), Zoo::P2(x) => x.serialized_size(), Zoo::P3(x) => x.serialized_size(),
            Zoo::C1(x) => x.serialized_size(c), Zoo::C2(x) => x.serialized_size(c), Zoo::C3(x) => x.serialized_size(c),
            Zoo::C1T(x, t) => x.serialized_terms_size(c, t.len()), Zoo::C2T(x, t) => x.serialized_terms_size(c, t.len()), Zoo::C3T(x, t) => x.serialized_terms_size(c, t.len()),
            Zoo::Poly(_, id) => PolynomialSerializer {}.serialized_polynomial_size(c, *id),
            Zoo::VecCt(v) => v.serialized_size(c),
            Zoo::RCt(x) => x.serialized_size(e.rctx.as_ref().unwrap()), Zoo::RCtFull(x) => x.serialized_full_size(e.rctx.as_ref().unwrap()), Zoo::RCtTerms(x, t) => x.serialized_terms_size(e.rctx.as_ref().unwrap(), t.len()),
            Zoo::RPk(x) => x.serialized_size(e.rctx.as_ref().unwrap()), Zoo::RRk(x) => x.serialized_size(e.rctx.as_ref().unwrap()), Zoo::RGk(x) => x.serialized_size(e.rctx.as_ref().unwrap()),
        }
    }
    /// deserialize an object of the same type (and with the same term list) from a stream, in the given contexts
    pub fn deserialize_like<R: Read>(&self, c: &HeContext, rc: Option<&RnspHeContext>, s: &mut R) -> IoResult<Zoo> {
        Ok(match self {
            Zoo::Params(_) => Zoo::Params(<EncryptionParameters as Serializable>::deserialize(s)?), Zoo::Modulus(_) => Zoo::Modulus(<Modulus as Serializable>::deserialize(s)?),
            Zoo::Plain(_) => Zoo::Plain(<Plaintext as Serializable>::deserialize(s)?), Zoo::Sk(_) => Zoo::Sk(<SecretKey as Serializable>::deserialize(s)?),
            Zoo::Pk(_) => Zoo::Pk(PublicKey::deserialize(c, s)?), Zoo::Ct(_) => Zoo::Ct(<Ciphertext as SerializableWithHeContext>::deserialize(c, s)?), Zoo::CtFull(_) => Zoo::CtFull(Ciphertext::deserialize_full(c, s)?),
            Zoo::CtTerms(_, t) => Zoo::CtTerms(Ciphertext::deserialize_terms(c, t, s)?, t.clone()),
            Zoo::Rk(_) => Zoo::Rk(RelinKeys::deserialize(c, s)?), Zoo::Gk(_) => Zoo::Gk(GaloisKeys::deserialize(c, s)?), Zoo::Ksk(_) => Zoo::Ksk(KSwitchKeys::deserialize(c, s)?),
            Zoo::P1(_) => Zoo::P1(<Plain1d as Serializable>::deserialize(s)?), Zoo::P2(_) => Zoo::P2(<Plain2d as Serializable>::deserialize(s)?), Zoo::P3(_) => Zoo::P3(<Plain3d as Serializable>::deserialize(s)?),
            Zoo::C1(_) => Zoo::C1(<Cipher1d as SerializableWithHeContext>::deserialize(c, s)?), Zoo::C2(_) => Zoo::C2(<Cipher2d as SerializableWithHeContext>::deserialize(c, s)?), Zoo::C3(_) => Zoo::C3(<Cipher3d as SerializableWithHeContext>::deserialize(c, s)?),
            Zoo::C1T(_, t) => Zoo::C1T(Cipher1d::deserialize_terms(c, t, s)?, t.clone()), Zoo::C2T(_, t) => Zoo::C2T(Cipher2d::deserialize_terms(c, t, s)?, t.clone()), Zoo::C3T(_, t) => Zoo::C3T(Cipher3d::deserialize_terms(c, t, s)?, t.clone()),
            Zoo::Poly(_, id) => Zoo::Poly(PolynomialSerializer::deserialize_polynomial(c, s)?, *id),
            Zoo::VecCt(_) => Zoo::VecCt(<Vec<Ciphertext> as SerializableWithHeContext>::deserialize(c, s)?),
            Zoo::RCt(_) => Zoo::RCt(<RnspCiphertext as RnspSerializableWithHeContext>::deserialize(rc.unwrap(), s)?), Zoo::RCtFull(_) => Zoo::RCtFull(RnspCiphertext::deserialize_full(rc.unwrap(), s)?),
            Zoo::RCtTerms(_, t) => Zoo::RCtTerms(RnspCiphertext::deserialize_terms(rc.unwrap(), t, s)?, t.clone()),
            Zoo::RPk(_) => Zoo::RPk(RnspPublicKey::deserialize(rc.unwrap(), s)?), Zoo::RRk(_) => Zoo::RRk(RnspRelinKeys::deserialize(rc.unwrap(), s)?), Zoo::RGk(_) => Zoo::RGk(RnspGaloisKeys::deserialize(rc.unwrap(), s)?),
        })
    }
    /// canonical form; `expected` = the form a correct round trip must produce (seeds expanded, terms applied)
    pub fn canon(&self, e: &ZooEnv, expected: bool) -> Canon {
        let w = &e.w; let c = &*w.context;
        let ex = |x: &Ciphertext| if expected { cts(&exp(x, c)) } else { cts(x) };
        let ext = |x: &Ciphertext, t: &Vec<usize>| if expected { cts(&restrict_terms(w, x, t)) } else { cts(x) };
        let ksk = |k: &KSwitchKeys| if expected && k.contains_seed() { ksks(&k.clone().expand_seed(c)) } else { ksks(k) };
        match self {
            Zoo::Params(p) => Canon::Params(u8::from(p.scheme()), p.poly_modulus_degree(), p.coeff_modulus().iter().map(|m| m.value()).collect(), p.plain_modulus().value(), *p.parms_id(), p.use_special_prime_for_encryption()),
            Zoo::Modulus(m) => Canon::U(m.value()), Zoo::Plain(p) => Canon::Pt(pts(p)), Zoo::Sk(k) => Canon::Pt(pts(k.as_plaintext())),
            Zoo::Pk(k) => Canon::Ct(ex(k.as_ciphertext())), Zoo::Ct(x) | Zoo::CtFull(x) => Canon::Ct(ex(x)), Zoo::CtTerms(x, t) => Canon::Ct(ext(x, t)),
            Zoo::Rk(k) => Canon::Ksk(ksk(k.as_kswitch_keys())), Zoo::Gk(k) => Canon::Ksk(ksk(k.as_kswitch_keys())), Zoo::Ksk(k) => Canon::Ksk(ksk(k)),
            Zoo::P1(x) => Canon::Pts(x.data.iter().map(pts).collect()), Zoo::P2(x) => Canon::Pts2(x.data.iter().map(|y| y.data.iter().map(pts).collect()).collect()),
            Zoo::P3(x) => Canon::Pts3(x.data.iter().map(|y| y.data.iter().map(|z| z.data.iter().map(pts).collect()).collect()).collect()),
            Zoo::C1(x) => Canon::Cts(x.data.iter().map(ex).collect()), Zoo::C2(x) => Canon::Cts2(x.data.iter().map(|y| y.data.iter().map(ex).collect()).collect()),
            Zoo::C3(x) => Canon::Cts3(x.data.iter().map(|y| y.data.iter().map(|z| z.data.iter().map(ex).collect()).collect()).collect()),
            Zoo::C1T(x, t) => Canon::Cts(x.data.iter().map(|q| ext(q, t)).collect()), Zoo::C2T(x, t) => Canon::Cts2(x.data.iter().map(|y| y.data.iter().map(|q| ext(q, t)).collect()).collect()),
            Zoo::C3T(x, t) => Canon::Cts3(x.data.iter().map(|y| y.data.iter().map(|z| z.data.iter().map(|q| ext(q, t)).collect()).collect()).collect()),
            Zoo::Poly(d, id) => { let mut v = d.clone(); if expected && *id == PARMS_ID_ZERO { v.resize(w.n, 0); } Canon::Words(v) }
            Zoo::VecCt(v) => Canon::Cts(v.iter().map(ex).collect()),
            Zoo::RCt(x) | Zoo::RCtFull(x) => { let rc = e.rctx.as_ref().unwrap(); Canon::Cts(x.components.iter().zip(rc.components.iter()).map(|(q, cc)| if expected { cts(&exp(q, cc)) } else { cts(q) }).collect()) }
            Zoo::RCtTerms(x, t) => { let rc = e.rctx.as_ref().unwrap(); Canon::Cts(x.components.iter().zip(rc.components.iter()).map(|(q, cc)| if expected { cts(&restrict_terms_ctx(cc, w.n, q, t)) } else { cts(q) }).collect()) }
            Zoo::RPk(x) => { let rc = e.rctx.as_ref().unwrap(); Canon::Cts(x.components.iter().zip(rc.components.iter()).map(|(q, cc)| if expected { cts(&exp(q.as_ciphertext(), cc)) } else { cts(q.as_ciphertext()) }).collect()) }
            Zoo::RRk(x) => { let rc = e.rctx.as_ref().unwrap(); Canon::Ksks(x.components.iter().zip(rc.components.iter()).map(|(q, cc)| { let k = q.as_kswitch_keys(); if expected && k.contains_seed() { ksks(&k.clone().expand_seed(cc)) } else { ksks(k) } }).collect()) }
            Zoo::RGk(x) => { let rc = e.rctx.as_ref().unwrap(); Canon::Ksks(x.components.iter().zip(rc.components.iter()).map(|(q, cc)| { let k = q.as_kswitch_keys(); if expected && k.contains_seed() { ksks(&k.clone().expand_seed(cc)) } else { ksks(k) } }).collect()) }
        }
    }
    pub fn is_seeded(&self) -> bool { match self {
        Zoo::Pk(k) => k.contains_seed(), Zoo::Ct(x) | Zoo::CtFull(x) | Zoo::CtTerms(x, _) => x.contains_seed(), Zoo::Rk(k) => k.contains_seed(), Zoo::Gk(k) => k.contains_seed(), Zoo::Ksk(k) => k.contains_seed(),
        Zoo::C1(x) | Zoo::C1T(x, _) => x.data.iter().any(|c| c.contains_seed()), Zoo::VecCt(v) => v.iter().any(|c| c.contains_seed()),
        Zoo::C2(x) | Zoo::C2T(x, _) => x.data.iter().any(|y| y.data.iter().any(|c| c.contains_seed())),
        Zoo::RCt(x) | Zoo::RCtFull(x) | Zoo::RCtTerms(x, _) => x.components.iter().any(|c| c.contains_seed()), Zoo::RPk(x) => x.components.iter().any(|c| c.contains_seed()), _ => false } }
}

fn restrict_terms_ctx(ctx: &Arc<HeContext>, n: usize, c: &Ciphertext, terms: &[usize]) -> Ciphertext {
    let mut x = exp(c, ctx);
    let k = x.coeff_modulus_size();
    let cd = ctx.get_context_data(x.parms_id()).unwrap();
    let keep: std::collections::HashSet<usize> = terms.iter().cloned().collect();
    for j in 0..k {
        let mut comp = x.poly_component(0, j).to_vec();
        if x.is_ntt_form() { cd.small_ntt_tables()[j].inverse_ntt_negacyclic_harvey(&mut comp); }
        for i in 0..n { if !keep.contains(&i) { comp[i] = 0; } }
        if x.is_ntt_form() { cd.small_ntt_tables()[j].ntt_negacyclic_harvey(&mut comp); }
        x.poly_component_mut(0, j).copy_from_slice(&comp);
    }
    x
}

pub fn zoo_env(ps: &ParamSet, need_rnsp: bool) -> Result<ZooEnv, String> {
    let w = World::new(ps)?;
    let rctx = if need_rnsp && ps.scheme != Scheme::CKKS {
        // two plain moduli: the set's own t and another batching-friendly / coprime value
        let t2 = { let mut c = ps.t + 1; let q = &w.levels[0].q; while c < (1 << 60) && (ps.moduli.iter().any(|m| crate::refmath::gcd(*m, c) != 1) || crate::refmath::gcd(c, ps.t) != 1 || crate::bigint::BigU::from_u64(c) >= *q) { c += 1; if c > ps.t + 1000 { c = 2; break; } } c };
        if t2 == ps.t || t2 < 2 || crate::refmath::gcd(t2, ps.t) != 1 { None } else {
            let parms = RnspEncryptionParameters::new(ps.scheme.to_lib()).set_poly_modulus_degree(1usize << ps.logn)
                .set_coeff_modulus(ps.moduli.iter().map(|m| Modulus::new(*m)).collect()).set_plain_modulus(vec![Modulus::new(ps.t), Modulus::new(t2)]);
            let r = catch(|| RnspHeContext::new(parms, ps.expand_chain, SecurityLevel::None)).map_err(|p| format!("RnspHeContext::new panicked: {p}"))?;
            if r.parameters_set() && r.components.iter().all(|c| c.using_keyswitching() == w.context.using_keyswitching()) { Some(r) } else { None }
        }
    } else { None };
    Ok(ZooEnv { w, rctx })
}

/// Build the object a spec describes. None if the kind is not available under these parameters.
pub fn build(e: &ZooEnv, z: &ZooSpec) -> Result<Option<Zoo>, String> {
    let w = &e.w; let n = w.n; let t = w.t(); let scheme = w.ps.scheme; let ev = &w.evaluator; let ctx = &w.context;
    let ksw = w.has_special_prime();
    let terms: Vec<usize> = z.terms.iter().map(|s| pick_idx(*s, n)).collect();
    let vals: Vec<u64> = z.coeffs.iter().take(n).map(|(s, r)| plain_value(*s, *r, t.max(2))).collect();
    // CKKS: a scale the first level can hold together with values up to ~2^9
    let ckks_scale = 2f64.powi(((w.levels[0].qbits as i32) - 14).clamp(0, 12));
    if scheme == Scheme::CKKS && w.levels[0].qbits < 16 && !matches!(z.kind % KINDS, 0 | 1 | 4 | 5 | 9 | 10 | 11) { return Ok(None); }
    let mk_plain = |i: usize| -> Result<Plaintext, String> { catch(|| match scheme {
        Scheme::CKKS => { let enc = CKKSEncoder::new(ctx.clone()); let v: Vec<Complex64> = z.coeffs.iter().take((n / 2).max(1)).map(|(a, b)| Complex64::new(*a as f64 - 100.0 + i as f64, (*b % 1000) as f64 / 7.0)).collect(); enc.encode_c64_array_new(&v, None, ckks_scale) }
        _ => { let be = BatchEncoder::new(ctx.clone()); let mut v = vals.clone(); if !v.is_empty() { let l = v.len(); v[i % l] = (v[i % l] + i as u64) % t; } be.encode_polynomial_new(&v[..(1 + (z.state as usize + i) % n).min(v.len())]) } }) };
    let mk_ct = |state: u8, i: usize| -> Result<Ciphertext, String> {
        let p = mk_plain(i)?;
        catch(|| {
            let mut c = if state & 1 == 1 { w.encryptor.encrypt_symmetric_new(&p) } else { w.encryptor.encrypt_new(&p) };
            let wants_more = state & 0b1110 != 0;
            if wants_more && c.contains_seed() { c = c.expand_seed(ctx); }
            if state & 2 != 0 {
                // size 3, or (bit 4) a chain of products with the fresh ciphertext: sizes 4, 6, .., 16
                let c2 = c.clone();
                let extra = if state & 16 != 0 { 2 + 2 * (state >> 5) as usize } else { 1 };
                for _ in 0..extra { match catch(|| ev.multiply_new(&c, &c2)) { Ok(m) if m.size() <= 16 => c = m, _ => break } }
            }
            if state & 4 != 0 && w.levels.len() > 1 { if let Ok(m) = catch(|| ev.mod_switch_to_next_new(&c)) { c = m; } }
            if state & 8 != 0 && scheme != Scheme::CKKS { c = if c.is_ntt_form() { ev.transform_from_ntt_new(&c) } else { ev.transform_to_ntt_new(&c) }; }
            c
        })
    };
    let dim = |i: usize| -> usize { (*z.dims.get(i).unwrap_or(&1) % 4) as usize }; // 0..3 elements per dimension (empty containers included)
    let need_ksw = |ok: bool| -> bool { ok };
    Ok(Some(match z.kind % KINDS {
        0 => Zoo::Params(build_params(&w.ps)),
        1 => Zoo::Modulus(Modulus::new(*w.ps.moduli.get(z.state as usize % w.ps.moduli.len()).unwrap())),
        2 => Zoo::Plain(mk_plain(0)?),
        3 => { let p = mk_plain(0)?; if scheme == Scheme::CKKS { Zoo::Plain(p) } else { let l = z.state as usize % w.levels.len(); Zoo::Plain(catch(|| ev.transform_plain_to_ntt_new(&p, &w.levels[l].parms_id))?) } }
        4 => Zoo::Sk(w.sk.clone()),
        5 => Zoo::Pk(catch(|| w.keygen.create_public_key(z.state & 1 == 1))?),
        6 => Zoo::Ct(mk_ct(z.state, 0)?),
        7 => Zoo::CtFull(mk_ct(z.state, 0)?),
        8 => Zoo::CtTerms(mk_ct(z.state, 0)?, terms),
        9 => { if !need_ksw(ksw) { return Ok(None); } Zoo::Rk(catch(|| w.keygen.create_relin_keys(z.state & 1 == 1))?) }
        10 => { if !ksw { return Ok(None); } let elts: Vec<usize> = z.elts.iter().map(|s| 2 * pick_idx(*s, n) + 1).collect(); Zoo::Gk(catch(|| if z.state & 2 != 0 { w.keygen.create_galois_keys(z.state & 1 == 1) } else { w.keygen.create_galois_keys_from_elts(&elts, z.state & 1 == 1) })?) }
        11 => { if !ksw { return Ok(None); } let other = KeyGenerator::new(ctx.clone()); Zoo::Ksk(catch(|| w.keygen.create_keyswitching_key(other.secret_key(), z.state & 1 == 1))?) }
        12 => Zoo::P1(Plain1d::new((0..dim(0)).map(|i| mk_plain(i)).collect::<Result<Vec<_>, _>>()?)),
        13 => Zoo::P2(Plain2d::new((0..dim(0)).map(|i| (0..dim(1)).map(|j| mk_plain(i * 4 + j)).collect::<Result<Vec<_>, _>>()).collect::<Result<Vec<_>, _>>()?)),
        14 => Zoo::P3(Plain3d::new_2ds((0..dim(0)).map(|i| Ok(Plain2d::new((0..dim(1)).map(|j| (0..dim(2)).map(|k| mk_plain(i * 16 + j * 4 + k)).collect::<Result<Vec<_>, String>>()).collect::<Result<Vec<_>, String>>()?))).collect::<Result<Vec<_>, String>>()?)),
        15 | 18 => { let c1 = Cipher1d::new((0..dim(0)).map(|i| mk_ct(z.state.wrapping_add(i as u8 * 5), i)).collect::<Result<Vec<_>, _>>()?); if z.kind % KINDS == 15 { Zoo::C1(c1) } else { Zoo::C1T(c1, terms) } }
        16 | 19 => { let c2 = Cipher2d::new((0..dim(0)).map(|i| (0..dim(1)).map(|j| mk_ct(z.state.wrapping_add((i * 3 + j) as u8), i + j)).collect::<Result<Vec<_>, _>>()).collect::<Result<Vec<_>, _>>()?); if z.kind % KINDS == 16 { Zoo::C2(c2) } else { Zoo::C2T(c2, terms) } }
        17 | 20 => { let c3 = Cipher3d::new_2ds((0..dim(0)).map(|i| Ok(Cipher2d::new((0..dim(1)).map(|j| (0..dim(2)).map(|k| mk_ct(z.state.wrapping_add((i + j + k) as u8), k)).collect::<Result<Vec<_>, String>>()).collect::<Result<Vec<_>, String>>()?))).collect::<Result<Vec<_>, String>>()?); if z.kind % KINDS == 17 { Zoo::C3(c3) } else { Zoo::C3T(c3, terms) } }
        21 => { if scheme == Scheme::CKKS || z.state & 1 == 1 { let c = mk_ct(z.state & 0b1100, 0)?; Zoo::Poly(c.poly(1).to_vec(), *c.parms_id()) } else { Zoo::Poly(vals[..(1 + z.state as usize % n).min(vals.len())].to_vec(), PARMS_ID_ZERO) } }
        22 | 23 | 24 | 25 | 27 | 28 => {
            let rc = match &e.rctx { Some(r) => r, None => return Ok(None) };
            let kg = RnspKeyGenerator::new(rc);
            match z.kind % KINDS {
                25 => Zoo::RPk(catch(|| kg.create_public_key(z.state & 1 == 1))?),
                27 => { if !ksw { return Ok(None); } Zoo::RRk(catch(|| kg.create_relin_keys(z.state & 1 == 1))?) }
                28 => { if !ksw { return Ok(None); } Zoo::RGk(catch(|| kg.create_galois_keys(z.state & 1 == 1))?) }
                k => {
                    let enc = RnspEncryptor::new(rc).set_secret_key(kg.get_secret_key()).set_public_key(kg.create_public_key(false));
                    let be = RnspBatchEncoder::new(rc);
                    let pl = catch(|| be.encode_polynomial_new(&vals.iter().flat_map(|v| vec![*v, 0]).collect::<Vec<_>>()[..2 * vals.len().min(n)]))?;
                    let c = catch(|| if z.state & 1 == 1 { enc.encrypt_symmetric_new(&pl) } else { enc.encrypt_new(&pl) })?;
                    match k { 22 => Zoo::RCt(c), 23 => Zoo::RCtFull(c), _ => Zoo::RCtTerms(c, terms) }
                }
            }
        }
        _ => Zoo::VecCt((0..dim(0)).map(|i| mk_ct(z.state.wrapping_add(i as u8 * 7), i)).collect::<Result<Vec<_>, _>>()?),
    }))
}
