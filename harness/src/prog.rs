//! Operation programs over a pool of ciphertexts / plaintexts with a shadow state per element
//! (BFV / BGV; the CKKS variant lives in props/c03.rs). Used by C02, C06, C07.
#![allow(dead_code)]

use crate::gen::params::*;
use crate::refmath as rm;
use crate::runner::*;
use crate::shadow::*;
use heathcliff::*;
use proptest::prelude::*;
use serde::{Deserialize, Serialize};

#[derive(Clone, Copy, Debug, PartialEq, Eq, Serialize, Deserialize)]
pub enum OpKind { Negate, Add, Sub, AddMany, Mul, Square, AddPlain, SubPlain, MulPlain, ToNtt, FromNtt, Relin, ModSwitch }
pub const OPKINDS: [OpKind; 13] = [OpKind::Negate, OpKind::Add, OpKind::Sub, OpKind::AddMany, OpKind::Mul, OpKind::Square, OpKind::AddPlain,
    OpKind::SubPlain, OpKind::MulPlain, OpKind::ToNtt, OpKind::FromNtt, OpKind::Relin, OpKind::ModSwitch];

#[derive(Clone, Debug, Serialize, Deserialize)]
pub struct OpSpec { pub kind: OpKind, pub a: u16, pub b: u16, pub c: u16, pub flag: bool }

#[derive(Clone, Debug, Serialize, Deserialize)]
pub struct PlainSpec { pub kind: u8, pub pos: u16, pub coeffs: Vec<(u8, u64)> }

#[derive(Clone, Debug, Serialize, Deserialize)]
pub struct ProgCase {
    pub ps: ParamSet,
    /// fresh ciphertexts: (public-key?, plaintext index)
    pub inits: Vec<(bool, u16)>,
    pub plains: Vec<PlainSpec>,
    pub ops: Vec<OpSpec>,
}

pub fn prog_param_cfg(logn_hi: u32, schemes: Vec<Scheme>) -> ParamCfg {
    ParamCfg { schemes, logn_lo: 1, logn_hi, logn_small: 3.min(logn_hi), k_lo: 3, k_hi: 5, bits_lo: 45, bits_hi: 60,
        t_kind: TKind::Any, t_bits_lo: 2, t_bits_hi: 50, need_keyswitching: true, allow_special_flag: false, always_expand: true }
}

pub fn prog_case(cfg: ParamCfg, max_ops: usize, mul_weight: u32) -> BoxedStrategy<ProgCase> {
    let op = (prop_oneof![
        2 => Just(OpKind::Negate), 3 => Just(OpKind::Add), 3 => Just(OpKind::Sub), 1 => Just(OpKind::AddMany),
        mul_weight => Just(OpKind::Mul), mul_weight / 2 + 1 => Just(OpKind::Square), 2 => Just(OpKind::AddPlain), 1 => Just(OpKind::SubPlain),
        3 => Just(OpKind::MulPlain), 2 => Just(OpKind::ToNtt), 2 => Just(OpKind::FromNtt), 3 => Just(OpKind::Relin), 3 => Just(OpKind::ModSwitch)
    ], any::<u16>(), any::<u16>(), any::<u16>(), any::<bool>()).prop_map(|(kind, a, b, c, flag)| OpSpec { kind, a, b, c, flag });
    cfg.strategy().prop_flat_map(move |ps| {
        let n = 1usize << ps.logn;
        let plain = (0u8..8, any::<u16>(), proptest::collection::vec((any::<u8>(), any::<u64>()), n)).prop_map(|(kind, pos, coeffs)| PlainSpec { kind, pos, coeffs });
        (Just(ps), proptest::collection::vec((any::<bool>(), any::<u16>()), 2..=4), proptest::collection::vec(plain, 2..=4), proptest::collection::vec(op.clone(), 0..=max_ops))
    }).prop_map(|(ps, inits, plains, ops)| ProgCase { ps, inits, plains, ops }).boxed()
}

/// plaintext polynomial (length <= N) from a spec
pub fn plain_poly(p: &PlainSpec, n: usize, t: u64) -> Vec<u64> {
    let vals: Vec<u64> = p.coeffs.iter().take(n).map(|(s, r)| plain_value(*s, *r, t)).collect();
    match p.kind {
        0 => { // monomial, possibly upper half
            let mut v = vec![0u64; pick_idx(p.pos, n) + 1];
            let c = if vals[0] == 0 { t - 1 } else { vals[0] };
            *v.last_mut().unwrap() = c; v
        }
        1 => vec![vals[0]],                                        // constant (may be zero)
        2 => vals[..(n / 2).max(1)].to_vec(),                      // short
        3 => { let mut v = vals.clone(); if *v.last().unwrap() == 0 { *v.last_mut().unwrap() = 1; } v } // full length
        4 => { let mut v = vec![0u64; n]; v[pick_idx(p.pos, n)] = (t + 1) / 2; v[0] = t - 1; v }       // two upper-half terms
        _ => { let len = 1 + pick_idx(p.pos, n); vals[..len].to_vec() }
    }
}

pub struct Elem { pub ct: Ciphertext, pub msg: Vec<u64>, pub level: usize, pub size: usize, pub ntt: bool, pub lv: f64, pub depth: u32, pub fresh: bool }

#[derive(Default)]
pub struct ProgStats {
    pub steps: usize, pub skipped: usize, pub asserted: usize, pub unasserted: usize,
    pub has_mul: bool, pub unequal_sizes: bool, pub size_ge4: bool, pub lower_level: bool, pub cf_differ: bool, pub ntt_operand: bool,
    pub relin: bool, pub max_size: usize, pub model_discrepancies: usize,
}

pub struct Machine<'a> {
    pub w: &'a World,
    pub nm: NoiseModel,
    pub pool: Vec<Elem>,
    pub plains: Vec<Vec<u64>>,
    pub relin_keys: Option<RelinKeys>,
    pub stats: ProgStats,
    pub encoder: BatchEncoder,
}

pub fn plaintext_of(w: &World, enc: &BatchEncoder, poly: &[u64]) -> Plaintext { let _ = w; enc.encode_polynomial_new(poly) }

impl<'a> Machine<'a> {
    pub fn new(w: &'a World, case: &ProgCase) -> Result<Machine<'a>, String> {
        let n = w.n; let t = w.t();
        let nm = NoiseModel::new(w);
        let encoder = BatchEncoder::new(w.context.clone());
        let plains: Vec<Vec<u64>> = case.plains.iter().map(|p| plain_poly(p, n, t)).collect();
        let relin_keys = if w.has_special_prime() { Some(catch(|| w.keygen.create_relin_keys(false)).map_err(|p| format!("create_relin_keys panicked: {p}"))?) } else { None };
        let mut pool = vec![];
        for (pk, pi) in &case.inits {
            let poly = &plains[pick_idx(*pi, plains.len())];
            let pt = plaintext_of(w, &encoder, poly);
            // every other element after the first is encrypted through the destination form into a ciphertext that was used
            // before: an earlier element moved one level down (other level, and in BGV another correction factor) when possible
            let used: Option<Ciphertext> = if pi & 1 == 1 { pool.last().map(|e: &Elem| catch(|| w.evaluator.mod_switch_to_next_new(&e.ct)).unwrap_or_else(|_| e.ct.clone())) } else { None };
            let ct = catch(|| match used {
                Some(mut d) => { if *pk { w.encryptor.encrypt(&pt, &mut d); d } else { w.encryptor.encrypt_symmetric(&pt, &mut d); d.expand_seed_if_any(&w.context) } }
                None => if *pk { w.encryptor.encrypt_new(&pt) } else { w.encryptor.encrypt_symmetric_new(&pt).expand_seed_if_any(&w.context) } })
                .map_err(|p| format!("fresh encryption panicked: {p}"))?;
            let switched = *pk && w.context.first_context_data().unwrap().prev_context_data().is_some();
            pool.push(Elem { ntt: ct.is_ntt_form(), ct, msg: pad(poly, n), level: 0, size: 2, lv: nm.fresh(*pk, switched), depth: 0, fresh: true });
        }
        Ok(Machine { w, nm, pool, plains, relin_keys, stats: ProgStats::default(), encoder })
    }

    pub fn lq(&self, level: usize) -> f64 { log2_big(&self.w.levels[level].q) }
    pub fn default_ntt(&self) -> bool { self.w.ps.scheme != Scheme::BFV }

    /// indices of pool elements satisfying a predicate
    fn cands(&self, f: impl Fn(&Elem) -> bool) -> Vec<usize> { (0..self.pool.len()).filter(|&i| f(&self.pool[i])).collect() }
}

pub trait ExpandIfAny { fn expand_seed_if_any(self, ctx: &HeContext) -> Self; }
impl ExpandIfAny for Ciphertext { fn expand_seed_if_any(self, ctx: &HeContext) -> Self { if self.contains_seed() { self.expand_seed(ctx) } else { self } } }

/// centered absolute value of x mod t
pub fn cabs(x: u64, t: u64) -> u64 { let x = x % t; x.min(t - x) }

/// One planned step: which operands, what the result shadow must be. Returned by `plan`, executed by the caller
/// (so that C06 can execute it through every API form).
pub struct Planned { pub kind: OpKind, pub a: usize, pub b: Option<usize>, pub c: Option<usize>, pub plain: Option<Plaintext>, pub plain_poly: Option<Vec<u64>>,
    pub msg: Vec<u64>, pub level: usize, pub size: usize, pub ntt: bool, pub lv_pre: f64 }

impl<'a> Machine<'a> {
    /// choose well-typed operands for `op` (construction, not rejection); None if no operand fits
    pub fn plan(&mut self, op: &OpSpec) -> Option<Planned> {
        let w = self.w; let t = w.t(); let n = w.n;
        let dn = self.default_ntt();
        let nlev = w.levels.len();
        let pick = |c: &Vec<usize>, sel: u16| -> Option<usize> { if c.is_empty() { None } else { Some(c[pick_idx(sel, c.len())]) } };
        match op.kind {
            OpKind::Negate => {
                let a = pick(&self.cands(|_| true), op.a)?;
                let e = &self.pool[a];
                Some(Planned { kind: op.kind, a, b: None, c: None, plain: None, plain_poly: None, msg: pneg(&e.msg, t), level: e.level, size: e.size, ntt: e.ntt, lv_pre: e.lv })
            }
            OpKind::Add | OpKind::Sub => {
                let a = pick(&self.cands(|_| true), op.a)?;
                let (la, na) = (self.pool[a].level, self.pool[a].ntt);
                let b = pick(&self.cands(|e| e.level == la && e.ntt == na), op.b)?;
                let (ea, eb) = (&self.pool[a], &self.pool[b]);
                let msg = if op.kind == OpKind::Add { padd(&ea.msg, &eb.msg, t) } else { psub(&ea.msg, &eb.msg, t) };
                Some(Planned { kind: op.kind, a, b: Some(b), c: None, plain: None, plain_poly: None, msg, level: la, size: ea.size.max(eb.size), ntt: na, lv_pre: f64::NAN })
            }
            OpKind::AddMany => {
                let a = pick(&self.cands(|_| true), op.a)?;
                let (la, na) = (self.pool[a].level, self.pool[a].ntt);
                let c = self.cands(|e| e.level == la && e.ntt == na);
                let b = pick(&c, op.b)?; let cc = pick(&c, op.c)?;
                let msg = padd(&padd(&self.pool[a].msg, &self.pool[b].msg, t), &self.pool[cc].msg, t);
                let size = self.pool[a].size.max(self.pool[b].size).max(self.pool[cc].size);
                Some(Planned { kind: op.kind, a, b: Some(b), c: Some(cc), plain: None, plain_poly: None, msg, level: la, size, ntt: na, lv_pre: f64::NAN })
            }
            OpKind::Mul => {
                let a = pick(&self.cands(|e| e.ntt == dn && e.size <= 15), op.a)?;
                let (la, sa) = (self.pool[a].level, self.pool[a].size);
                let b = pick(&self.cands(|e| e.ntt == dn && e.level == la && e.size + sa - 1 <= 16), op.b)?;
                let msg = pmul(&self.pool[a].msg, &self.pool[b].msg, t);
                Some(Planned { kind: op.kind, a, b: Some(b), c: None, plain: None, plain_poly: None, msg, level: la, size: sa + self.pool[b].size - 1, ntt: dn, lv_pre: f64::NAN })
            }
            OpKind::Square => {
                let a = pick(&self.cands(|e| e.ntt == dn && 2 * e.size - 1 <= 16), op.a)?;
                let e = &self.pool[a];
                Some(Planned { kind: op.kind, a, b: None, c: None, plain: None, plain_poly: None, msg: pmul(&e.msg, &e.msg, t), level: e.level, size: 2 * e.size - 1, ntt: dn, lv_pre: f64::NAN })
            }
            OpKind::AddPlain | OpKind::SubPlain => {
                let a = pick(&self.cands(|e| e.ntt == dn), op.a)?;
                let poly = self.plains[pick_idx(op.b, self.plains.len())].clone();
                let e = &self.pool[a];
                let pm = pad(&poly, n);
                let msg = if op.kind == OpKind::AddPlain { padd(&e.msg, &pm, t) } else { psub(&e.msg, &pm, t) };
                let pt = plaintext_of(w, &self.encoder, &poly);
                Some(Planned { kind: op.kind, a, b: None, c: None, plain: Some(pt), plain_poly: Some(poly), msg, level: e.level, size: e.size, ntt: dn, lv_pre: e.lv })
            }
            OpKind::MulPlain => {
                let a = pick(&self.cands(|_| true), op.a)?;
                let poly = self.plains[pick_idx(op.b, self.plains.len())].clone();
                if poly.iter().all(|&c| c == 0) { return None; } // multiplying by zero yields a transparent ciphertext (not a homomorphism question)
                let e = &self.pool[a];
                let mut pt = plaintext_of(w, &self.encoder, &poly);
                if op.flag { pt = w.evaluator.transform_plain_to_ntt_new(&pt, &w.levels[e.level].parms_id); }
                let msg = pmul(&e.msg, &pad(&poly, n), t);
                Some(Planned { kind: op.kind, a, b: None, c: None, plain: Some(pt), plain_poly: Some(poly), msg, level: e.level, size: e.size, ntt: e.ntt, lv_pre: e.lv })
            }
            OpKind::ToNtt | OpKind::FromNtt => {
                let want = op.kind == OpKind::FromNtt;
                let a = pick(&self.cands(|e| e.ntt == want), op.a)?;
                let e = &self.pool[a];
                Some(Planned { kind: op.kind, a, b: None, c: None, plain: None, plain_poly: None, msg: e.msg.clone(), level: e.level, size: e.size, ntt: !want, lv_pre: e.lv })
            }
            OpKind::Relin => {
                self.relin_keys.as_ref()?;
                let a = pick(&self.cands(|e| e.ntt == dn && e.size == 3), op.a)?;
                let e = &self.pool[a];
                Some(Planned { kind: op.kind, a, b: None, c: None, plain: None, plain_poly: None, msg: e.msg.clone(), level: e.level, size: 2, ntt: dn, lv_pre: e.lv })
            }
            OpKind::ModSwitch => {
                let a = pick(&self.cands(|e| e.ntt == dn && e.level + 1 < nlev), op.a)?;
                let e = &self.pool[a];
                Some(Planned { kind: op.kind, a, b: None, c: None, plain: None, plain_poly: None, msg: e.msg.clone(), level: e.level + 1, size: e.size, ntt: dn, lv_pre: e.lv })
            }
        }
    }

    /// execute through the value-returning API form
    pub fn exec_new(&self, p: &Planned) -> Result<Ciphertext, String> {
        let ev = &self.w.evaluator;
        let a = &self.pool[p.a].ct;
        catch(|| match p.kind {
            OpKind::Negate => ev.negate_new(a),
            OpKind::Add => ev.add_new(a, &self.pool[p.b.unwrap()].ct),
            OpKind::Sub => ev.sub_new(a, &self.pool[p.b.unwrap()].ct),
            OpKind::AddMany => ev.add_many_new(&[a.clone(), self.pool[p.b.unwrap()].ct.clone(), self.pool[p.c.unwrap()].ct.clone()]),
            OpKind::Mul => ev.multiply_new(a, &self.pool[p.b.unwrap()].ct),
            OpKind::Square => ev.square_new(a),
            OpKind::AddPlain => ev.add_plain_new(a, p.plain.as_ref().unwrap()),
            OpKind::SubPlain => ev.sub_plain_new(a, p.plain.as_ref().unwrap()),
            OpKind::MulPlain => ev.multiply_plain_new(a, p.plain.as_ref().unwrap()),
            OpKind::ToNtt => ev.transform_to_ntt_new(a),
            OpKind::FromNtt => ev.transform_from_ntt_new(a),
            OpKind::Relin => ev.relinearize_new(a, self.relin_keys.as_ref().unwrap()),
            OpKind::ModSwitch => ev.mod_switch_to_next_new(a),
        })
    }

    /// noise bound of the result (needs the result ciphertext for BGV correction factors)
    pub fn result_bound(&self, p: &Planned, res: &Ciphertext) -> f64 {
        let nm = &self.nm; let t = self.w.t();
        let ea = &self.pool[p.a];
        let k = self.w.levels[ea.level].moduli.len();
        let lq = self.lq(ea.level);
        let bgv = self.w.ps.scheme == Scheme::BGV;
        let add2 = |x: &Elem, y: &Elem| -> f64 {
            if bgv && x.ct.correction_factor() != y.ct.correction_factor() {
                // operands are multiplied by e1 = f'/f1 and e2 = f'/f2 taken as unsigned residues in [0,t) (the library
                // multiplies by the non-centered representative, so a 'negative' multiplier costs up to t)
                let f = res.correction_factor();
                let e1 = rm::mulmod(f, rm::invmod(x.ct.correction_factor() % t, t).unwrap_or(1), t).max(1) as f64;
                let e2 = rm::mulmod(f, rm::invmod(y.ct.correction_factor() % t, t).unwrap_or(1), t).max(1) as f64;
                ladd(x.lv + e1.log2(), y.lv + e2.log2())
            } else { ladd(x.lv, y.lv) }
        };
        match p.kind {
            OpKind::Negate | OpKind::ToNtt | OpKind::FromNtt => ea.lv,
            OpKind::Add | OpKind::Sub => add2(ea, &self.pool[p.b.unwrap()]),
            OpKind::AddMany => {
                // two successive additions; the intermediate factor is not observable, so bound with the loosest scaling (t) if factors differ
                let (eb, ec) = (&self.pool[p.b.unwrap()], &self.pool[p.c.unwrap()]);
                let same = ea.ct.correction_factor() == eb.ct.correction_factor() && eb.ct.correction_factor() == ec.ct.correction_factor();
                if !bgv || same { lsum(&[ea.lv, eb.lv, ec.lv]) } else { lsum(&[ea.lv, eb.lv, ec.lv]) + 2.0 * (t as f64).log2() }
            }
            OpKind::Mul => { let eb = &self.pool[p.b.unwrap()]; nm.mul(ea.lv, ea.size, eb.lv, eb.size, k, lq) }
            OpKind::Square => nm.mul(ea.lv, ea.size, ea.lv, ea.size, k, lq),
            OpKind::AddPlain | OpKind::SubPlain => nm.add_plain(ea.lv),
            OpKind::MulPlain => nm.mul_plain(ea.lv, p.plain_poly.as_ref().unwrap().iter().filter(|c| **c != 0).count()),
            OpKind::Relin => nm.keyswitch(ea.lv, k),
            OpKind::ModSwitch => nm.modswitch(ea.lv, ea.size, *self.w.levels[ea.level].moduli.last().unwrap()),
        }
    }

    /// metadata the result must carry; returns Err(description) on mismatch
    pub fn check_meta(&self, p: &Planned, res: &Ciphertext) -> Result<(), String> {
        let w = self.w; let t = w.t();
        if !res.is_valid_for(&w.context) { return Err(format!("{:?}: result is not valid for the context", p.kind)); }
        if res.size() != p.size { return Err(format!("{:?}: result size {} (expected {})", p.kind, res.size(), p.size)); }
        if res.parms_id() != &w.levels[p.level].parms_id { return Err(format!("{:?}: result not at level {}", p.kind, p.level)); }
        if res.is_ntt_form() != p.ntt { return Err(format!("{:?}: result is_ntt_form = {}", p.kind, res.is_ntt_form())); }
        if res.scale() != 1.0 { return Err(format!("{:?}: result scale {}", p.kind, res.scale())); }
        let cf = res.correction_factor();
        let fa = self.pool[p.a].ct.correction_factor();
        match w.ps.scheme {
            Scheme::BFV => if cf != 1 { return Err(format!("{:?}: BFV correction factor {cf}", p.kind)); },
            Scheme::BGV => {
                if cf == 0 || cf >= t || rm::gcd(cf, t) != 1 { return Err(format!("{:?}: BGV correction factor {cf} not a unit below t={t}", p.kind)); }
                let want = match p.kind {
                    OpKind::Mul => Some(rm::mulmod(fa, self.pool[p.b.unwrap()].ct.correction_factor(), t)),
                    OpKind::Square => Some(rm::mulmod(fa, fa, t)),
                    OpKind::ModSwitch => { let ql = *w.levels[self.pool[p.a].level].moduli.last().unwrap(); Some(rm::mulmod(fa, rm::invmod(ql % t, t).unwrap(), t)) }
                    OpKind::Add | OpKind::Sub | OpKind::AddMany => None,
                    _ => Some(fa),
                };
                if let Some(wf) = want { if cf != wf { return Err(format!("{:?}: BGV correction factor {cf}, expected {wf}", p.kind)); } }
            }
            Scheme::CKKS => {}
        }
        Ok(())
    }

    /// decrypt an element (BGV elements in coefficient form are copied to NTT form first, as the API requires)
    pub fn decrypt_padded(&self, ct: &Ciphertext) -> Result<Vec<u64>, String> {
        let w = self.w;
        let dn = self.default_ntt();
        let c2;
        let c = if ct.is_ntt_form() != dn {
            c2 = catch(|| if dn { w.evaluator.transform_to_ntt_new(ct) } else { w.evaluator.transform_from_ntt_new(ct) })?;
            &c2
        } else { ct };
        let p = catch(|| w.decryptor.decrypt_new(c))?;
        Ok(pad(p.data(), w.n))
    }

    pub fn note_stats(&mut self, p: &Planned) {
        let st = &mut self.stats;
        let ea = &self.pool[p.a];
        let dn = self.w.ps.scheme != Scheme::BFV;
        if matches!(p.kind, OpKind::Mul | OpKind::Square | OpKind::MulPlain) { st.has_mul = true; }
        if let Some(b) = p.b { let eb = &self.pool[b]; if ea.size != eb.size { st.unequal_sizes = true; } if ea.ct.correction_factor() != eb.ct.correction_factor() { st.cf_differ = true; } }
        if p.size >= 4 { st.size_ge4 = true; }
        if p.level > 0 { st.lower_level = true; }
        if ea.ntt != dn || p.plain.as_ref().map_or(false, |pl| pl.is_ntt_form()) { st.ntt_operand = true; }
        if p.kind == OpKind::Relin { st.relin = true; }
        st.max_size = st.max_size.max(p.size);
    }
}
