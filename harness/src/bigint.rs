//! Small arbitrary-precision integer used only by oracles. Little-endian u64 limbs, normalised
//! (no trailing zero limbs). Deliberately simple; self-tested at start of every run (`self_test`).
#![allow(dead_code)]

use std::cmp::Ordering;

#[derive(Clone, Debug, PartialEq, Eq, Hash, Default)]
pub struct BigU(pub Vec<u64>);

impl BigU {
    pub fn zero() -> Self { BigU(vec![]) }
    pub fn one() -> Self { BigU(vec![1]) }
    pub fn from_u64(x: u64) -> Self { let mut r = BigU(vec![x]); r.norm(); r }
    pub fn from_u128(x: u128) -> Self { let mut r = BigU(vec![x as u64, (x >> 64) as u64]); r.norm(); r }
    pub fn from_limbs(l: &[u64]) -> Self { let mut r = BigU(l.to_vec()); r.norm(); r }
    pub fn pow2(k: usize) -> Self { let mut v = vec![0u64; k / 64 + 1]; v[k / 64] = 1u64 << (k % 64); BigU(v) }
    fn norm(&mut self) { while let Some(&0) = self.0.last() { self.0.pop(); } }
    pub fn is_zero(&self) -> bool { self.0.is_empty() }
    pub fn is_odd(&self) -> bool { self.0.first().map_or(false, |x| x & 1 == 1) }
    pub fn bits(&self) -> usize {
        match self.0.last() { None => 0, Some(&t) => 64 * (self.0.len() - 1) + (64 - t.leading_zeros() as usize) }
    }
    pub fn to_u64(&self) -> Option<u64> { match self.0.len() { 0 => Some(0), 1 => Some(self.0[0]), _ => None } }
    pub fn to_u128(&self) -> Option<u128> {
        match self.0.len() { 0 => Some(0), 1 => Some(self.0[0] as u128), 2 => Some(self.0[0] as u128 | (self.0[1] as u128) << 64), _ => None }
    }
    /// limbs padded / truncated (must fit) to `n` words
    pub fn to_limbs(&self, n: usize) -> Vec<u64> {
        assert!(self.0.len() <= n, "to_limbs: value does not fit");
        let mut v = self.0.clone(); v.resize(n, 0); v
    }
    /// low `n` limbs (value mod 2^(64n))
    pub fn low_limbs(&self, n: usize) -> Vec<u64> {
        let mut v: Vec<u64> = self.0.iter().cloned().take(n).collect(); v.resize(n, 0); v
    }
    pub fn to_f64(&self) -> f64 {
        let mut r = 0.0f64;
        for &l in self.0.iter().rev() { r = r * 18446744073709551616.0 + l as f64; }
        r
    }
    pub fn cmp_(&self, o: &Self) -> Ordering {
        if self.0.len() != o.0.len() { return self.0.len().cmp(&o.0.len()); }
        for i in (0..self.0.len()).rev() { if self.0[i] != o.0[i] { return self.0[i].cmp(&o.0[i]); } }
        Ordering::Equal
    }
    pub fn add(&self, o: &Self) -> Self {
        let n = self.0.len().max(o.0.len());
        let mut r = Vec::with_capacity(n + 1);
        let mut c = 0u128;
        for i in 0..n {
            let s = *self.0.get(i).unwrap_or(&0) as u128 + *o.0.get(i).unwrap_or(&0) as u128 + c;
            r.push(s as u64); c = s >> 64;
        }
        if c > 0 { r.push(c as u64); }
        BigU(r)
    }
    /// self - o, panics if negative
    pub fn sub(&self, o: &Self) -> Self {
        assert!(self.cmp_(o) != Ordering::Less, "BigU::sub underflow");
        let mut r = Vec::with_capacity(self.0.len());
        let mut b = 0i128;
        for i in 0..self.0.len() {
            let mut d = self.0[i] as i128 - *o.0.get(i).unwrap_or(&0) as i128 - b;
            if d < 0 { d += 1i128 << 64; b = 1; } else { b = 0; }
            r.push(d as u64);
        }
        let mut r = BigU(r); r.norm(); r
    }
    pub fn mul(&self, o: &Self) -> Self {
        if self.is_zero() || o.is_zero() { return BigU::zero(); }
        let mut r = vec![0u64; self.0.len() + o.0.len()];
        for i in 0..self.0.len() {
            let mut c = 0u128;
            for j in 0..o.0.len() {
                let t = self.0[i] as u128 * o.0[j] as u128 + r[i + j] as u128 + c;
                r[i + j] = t as u64; c = t >> 64;
            }
            let mut k = i + o.0.len();
            while c > 0 { let t = r[k] as u128 + c; r[k] = t as u64; c = t >> 64; k += 1; }
        }
        let mut r = BigU(r); r.norm(); r
    }
    pub fn mul_u64(&self, o: u64) -> Self { self.mul(&BigU::from_u64(o)) }
    pub fn add_u64(&self, o: u64) -> Self { self.add(&BigU::from_u64(o)) }
    pub fn shl(&self, k: usize) -> Self {
        if self.is_zero() { return BigU::zero(); }
        let (w, b) = (k / 64, k % 64);
        let mut r = vec![0u64; w];
        if b == 0 { r.extend_from_slice(&self.0); }
        else {
            let mut c = 0u64;
            for &l in &self.0 { r.push((l << b) | c); c = l >> (64 - b); }
            if c > 0 { r.push(c); }
        }
        BigU(r)
    }
    pub fn shr(&self, k: usize) -> Self {
        let (w, b) = (k / 64, k % 64);
        if w >= self.0.len() { return BigU::zero(); }
        let mut r = Vec::with_capacity(self.0.len() - w);
        for i in w..self.0.len() {
            let lo = self.0[i] >> b;
            let hi = if b > 0 && i + 1 < self.0.len() { self.0[i + 1] << (64 - b) } else { 0 };
            r.push(lo | hi);
        }
        let mut r = BigU(r); r.norm(); r
    }
    pub fn bit(&self, k: usize) -> bool { self.0.get(k / 64).map_or(false, |l| (l >> (k % 64)) & 1 == 1) }
    /// (quotient, remainder); panics on zero divisor. Simple shift-subtract on limbs with a
    /// single-limb fast path; independent of the library's division code.
    pub fn divrem(&self, d: &Self) -> (Self, Self) {
        assert!(!d.is_zero(), "BigU::divrem by zero");
        if self.cmp_(d) == Ordering::Less { return (BigU::zero(), self.clone()); }
        if d.0.len() == 1 {
            let dv = d.0[0] as u128;
            let mut q = vec![0u64; self.0.len()];
            let mut r = 0u128;
            for i in (0..self.0.len()).rev() {
                let cur = (r << 64) | self.0[i] as u128;
                q[i] = (cur / dv) as u64; r = cur % dv;
            }
            let mut q = BigU(q); q.norm();
            return (q, BigU::from_u64(r as u64));
        }
        // Knuth algorithm D
        let s = d.0.last().unwrap().leading_zeros() as usize;
        let v = d.shl(s).0;
        let mut u = self.shl(s).0;
        let n = v.len();
        u.resize(self.0.len() + 1, 0);
        let m = self.0.len() - n;
        let mut q = vec![0u64; m + 1];
        let b: u128 = 1u128 << 64;
        for j in (0..=m).rev() {
            let num = ((u[j + n] as u128) << 64) | u[j + n - 1] as u128;
            let mut qhat = num / v[n - 1] as u128;
            let mut rhat = num % v[n - 1] as u128;
            while qhat >= b || qhat * v[n - 2] as u128 > ((rhat << 64) | u[j + n - 2] as u128) {
                qhat -= 1; rhat += v[n - 1] as u128;
                if rhat >= b { break; }
            }
            // multiply and subtract
            let mut borrow: i128 = 0;
            let mut carry: u128 = 0;
            for i in 0..n {
                let p = qhat * v[i] as u128 + carry;
                carry = p >> 64;
                let t = u[i + j] as i128 - borrow - (p as u64) as i128;
                if t < 0 { u[i + j] = (t + (1i128 << 64)) as u64; borrow = 1; } else { u[i + j] = t as u64; borrow = 0; }
            }
            let t = u[j + n] as i128 - borrow - carry as i128;
            if t < 0 {
                u[j + n] = (t + (1i128 << 64)) as u64;
                // add back
                qhat -= 1;
                let mut c = 0u128;
                for i in 0..n {
                    let s2 = u[i + j] as u128 + v[i] as u128 + c;
                    u[i + j] = s2 as u64; c = s2 >> 64;
                }
                u[j + n] = (u[j + n] as u128 + c) as u64;
            } else { u[j + n] = t as u64; }
            q[j] = qhat as u64;
        }
        let mut q = BigU(q); q.norm();
        let mut r = BigU(u[..n].to_vec()); r.norm();
        (q, r.shr(s))
    }
    pub fn div(&self, d: &Self) -> Self { self.divrem(d).0 }
    pub fn rem(&self, d: &Self) -> Self { self.divrem(d).1 }
    pub fn rem_u64(&self, d: u64) -> u64 {
        let mut r = 0u128;
        for i in (0..self.0.len()).rev() { r = ((r << 64) | self.0[i] as u128) % d as u128; }
        r as u64
    }
    pub fn product(xs: &[u64]) -> Self { let mut r = BigU::one(); for &x in xs { r = r.mul_u64(x); } r }
    pub fn to_hex(&self) -> String {
        if self.is_zero() { return "0x0".into(); }
        let mut s = format!("0x{:x}", self.0.last().unwrap());
        for l in self.0.iter().rev().skip(1) { s.push_str(&format!("{:016x}", l)); }
        s
    }
}

impl PartialOrd for BigU { fn partial_cmp(&self, o: &Self) -> Option<Ordering> { Some(self.cmp_(o)) } }
impl Ord for BigU { fn cmp(&self, o: &Self) -> Ordering { self.cmp_(o) } }

/// Signed integer: sign + magnitude; zero is never negative.
#[derive(Clone, Debug, PartialEq, Eq, Hash, Default)]
pub struct BigI { pub neg: bool, pub mag: BigU }

impl BigI {
    pub fn zero() -> Self { BigI { neg: false, mag: BigU::zero() } }
    pub fn from_u(m: BigU) -> Self { BigI { neg: false, mag: m } }
    pub fn from_i64(x: i64) -> Self { BigI { neg: x < 0, mag: BigU::from_u64(x.unsigned_abs()) } }
    pub fn from_i128(x: i128) -> Self { BigI { neg: x < 0, mag: BigU::from_u128(x.unsigned_abs()) } }
    pub fn new(neg: bool, mag: BigU) -> Self { let neg = neg && !mag.is_zero(); BigI { neg, mag } }
    pub fn is_zero(&self) -> bool { self.mag.is_zero() }
    pub fn negate(&self) -> Self { BigI::new(!self.neg, self.mag.clone()) }
    pub fn abs(&self) -> BigU { self.mag.clone() }
    pub fn add(&self, o: &Self) -> Self {
        if self.neg == o.neg { return BigI::new(self.neg, self.mag.add(&o.mag)); }
        match self.mag.cmp_(&o.mag) {
            Ordering::Equal => BigI::zero(),
            Ordering::Greater => BigI::new(self.neg, self.mag.sub(&o.mag)),
            Ordering::Less => BigI::new(o.neg, o.mag.sub(&self.mag)),
        }
    }
    pub fn sub(&self, o: &Self) -> Self { self.add(&o.negate()) }
    pub fn mul(&self, o: &Self) -> Self { BigI::new(self.neg != o.neg, self.mag.mul(&o.mag)) }
    /// floor division and non-negative remainder for positive divisor
    pub fn div_floor(&self, d: &BigU) -> (BigI, BigU) {
        let (q, r) = self.mag.divrem(d);
        if !self.neg { (BigI::from_u(q), r) }
        else if r.is_zero() { (BigI::new(true, q), r) }
        else { (BigI::new(true, q.add_u64(1)), d.sub(&r)) }
    }
    pub fn rem_floor(&self, d: &BigU) -> BigU { self.div_floor(d).1 }
    pub fn rem_u64(&self, d: u64) -> u64 {
        let r = self.mag.rem_u64(d);
        if self.neg && r != 0 { d - r } else { r }
    }
    pub fn cmp_(&self, o: &Self) -> Ordering {
        match (self.neg, o.neg) {
            (false, true) => Ordering::Greater,
            (true, false) => Ordering::Less,
            (false, false) => self.mag.cmp_(&o.mag),
            (true, true) => o.mag.cmp_(&self.mag),
        }
    }
    pub fn to_f64(&self) -> f64 { let m = self.mag.to_f64(); if self.neg { -m } else { m } }
    pub fn to_i128(&self) -> Option<i128> {
        let m = self.mag.to_u128()?;
        if self.neg { if m <= (1u128 << 127) { Some((m as i128).wrapping_neg()) } else { None } }
        else if m < (1u128 << 127) { Some(m as i128) } else { None }
    }
    pub fn to_string_hex(&self) -> String { format!("{}{}", if self.neg { "-" } else { "" }, self.mag.to_hex()) }
}
impl PartialOrd for BigI { fn partial_cmp(&self, o: &Self) -> Option<Ordering> { Some(self.cmp_(o)) } }
impl Ord for BigI { fn cmp(&self, o: &Self) -> Ordering { self.cmp_(o) } }

/// CRT composition: residues r_i mod q_i (pairwise coprime) -> the unique x in [0, prod q_i).
/// Uses only BigU arithmetic and u128 modular inverses (refmath), none of the library's code.
pub fn crt_compose(residues: &[u64], moduli: &[u64]) -> BigU {
    assert_eq!(residues.len(), moduli.len());
    let q = BigU::product(moduli);
    let mut acc = BigU::zero();
    for i in 0..moduli.len() {
        let punct = q.div(&BigU::from_u64(moduli[i]));
        let pm = punct.rem_u64(moduli[i]);
        let inv = crate::refmath::invmod(pm, moduli[i]).expect("crt_compose: moduli not coprime");
        let c = crate::refmath::mulmod(residues[i] % moduli[i], inv, moduli[i]);
        acc = acc.add(&punct.mul_u64(c));
    }
    acc.rem(&q)
}

/// centered representative of x mod q in (-q/2, q/2] ... precisely: x if x <= floor((q-1)/2) ... we use
/// x > q/2 (i.e. 2x > q) => x - q, else x. For odd q this is the symmetric range [-(q-1)/2, (q-1)/2].
pub fn centered(x: &BigU, q: &BigU) -> BigI {
    if x.shl(1).cmp_(q) == Ordering::Greater { BigI::new(true, q.sub(x)) } else { BigI::from_u(x.clone()) }
}

/// Deterministic self-test; returns Err(description) on the first failure.
pub fn self_test() -> Result<(), String> {
    let mut s: u64 = 0x9e3779b97f4a7c15;
    let mut next = || { s ^= s << 13; s ^= s >> 7; s ^= s << 17; s };
    for it in 0..10_000 {
        let sh1 = next() % 128; let sh2 = next() % 128;
        let a = (((next() as u128) << 64) | next() as u128) >> sh1;
        let b = (((next() as u128) << 64) | next() as u128) >> sh2;
        let (ba, bb) = (BigU::from_u128(a), BigU::from_u128(b));
        if let Some(s_) = a.checked_add(b) { if ba.add(&bb).to_u128() != Some(s_) { return Err(format!("add {it}")); } }
        if a >= b { if ba.sub(&bb).to_u128() != Some(a - b) { return Err(format!("sub {it}")); } }
        if let Some(p) = a.checked_mul(b) { if ba.mul(&bb).to_u128() != Some(p) { return Err(format!("mul {it}")); } }
        if b != 0 {
            let (q, r) = ba.divrem(&bb);
            if q.to_u128() != Some(a / b) || r.to_u128() != Some(a % b) { return Err(format!("divrem {it} {a} {b}")); }
        }
        let k = (next() % 130) as usize;
        if k < 128 && ba.shr(k).to_u128() != Some(a >> k) { return Err(format!("shr {it}")); }
        if k < 128 && (a.leading_zeros() as usize) >= k && ba.shl(k).to_u128() != Some(a << k) { return Err(format!("shl {it}")); }
        if ba.bits() != 128 - a.leading_zeros() as usize { return Err(format!("bits {it}")); }
        if (ba.cmp_(&bb)) != a.cmp(&b) { return Err(format!("cmp {it}")); }
        // signed
        let (ia, ib) = (a as i128 >> 1, b as i128 >> 1);
        let (sa, sb) = (BigI::from_i128(ia), BigI::from_i128(ib));
        if sa.add(&sb).to_i128() != ia.checked_add(ib) && ia.checked_add(ib).is_some() { return Err(format!("iadd {it}")); }
        if sa.sub(&sb).to_i128() != ia.checked_sub(ib) && ia.checked_sub(ib).is_some() { return Err(format!("isub {it}")); }
        if ib > 0 {
            let d = BigU::from_u128(ib as u128);
            let (q, r) = sa.div_floor(&d);
            if q.to_i128() != Some(ia.div_euclid(ib)) || r.to_u128() != Some(ia.rem_euclid(ib) as u128) { return Err(format!("idiv {it}")); }
        }
    }
    // multi-limb identities
    for it in 0..3000 {
        let la = 1 + (next() % 10) as usize; let lb = 1 + (next() % 10) as usize;
        let mk = |n: usize, next: &mut dyn FnMut() -> u64| {
            let mut v: Vec<u64> = (0..n).map(|_| match next() % 5 { 0 => 0, 1 => u64::MAX, 2 => 1u64 << 63, _ => next() }).collect();
            if *v.last().unwrap() == 0 { *v.last_mut().unwrap() = 1 + (next() >> 1); }
            BigU::from_limbs(&v)
        };
        let a = mk(la, &mut next); let b = mk(lb, &mut next);
        let (q, r) = a.divrem(&b);
        if q.mul(&b).add(&r) != a || r.cmp_(&b) != Ordering::Less { return Err(format!("divrem identity {it}: a={} b={}", a.to_hex(), b.to_hex())); }
        let p = a.mul(&b);
        let (q2, r2) = p.divrem(&b);
        if q2 != a || !r2.is_zero() { return Err(format!("(a*b)/b {it}")); }
        if a.add(&b).sub(&b) != a { return Err(format!("add/sub {it}")); }
        let k = (next() % 200) as usize;
        if a.shl(k).shr(k) != a { return Err(format!("shl/shr {it}")); }
        if a.shl(k) != a.mul(&BigU::pow2(k)) { return Err(format!("shl=mul {it}")); }
        let m = 2 + next() % ((1u64 << 61) - 2);
        if a.rem_u64(m) != a.rem(&BigU::from_u64(m)).to_u64().unwrap() { return Err(format!("rem_u64 {it}")); }
    }
    Ok(())
}
