//! hv — library part of the verification harness: oracles, generators, runner and the property definitions.
//! The `hv` binary (main.rs) drives it; the cargo-fuzz targets under /verif/fuzz reuse the same case
//! generators and oracles through `fuzz::run`.
#![allow(dead_code)]

pub mod bigint;
pub mod refmath;
#[macro_use]
pub mod runner;
pub mod gen;
pub mod sched;
pub mod shadow;
pub mod prog;
pub mod zoo;
pub mod props;
pub mod fuzz;
