//! Reference number theory used by oracles: u128 modular arithmetic, deterministic Miller-Rabin,
//! primitive roots, naive negacyclic convolution and evaluation. Independent of the library.
#![allow(dead_code)]

#[inline] pub fn mulmod(a: u64, b: u64, m: u64) -> u64 { ((a as u128 * b as u128) % m as u128) as u64 }
#[inline] pub fn addmod(a: u64, b: u64, m: u64) -> u64 { ((a as u128 + b as u128) % m as u128) as u64 }
#[inline] pub fn submod(a: u64, b: u64, m: u64) -> u64 { ((a as u128 % m as u128 + m as u128 - b as u128 % m as u128) % m as u128) as u64 }
#[inline] pub fn negmod(a: u64, m: u64) -> u64 { let a = a % m; if a == 0 { 0 } else { m - a } }

pub fn powmod(mut b: u64, mut e: u64, m: u64) -> u64 {
    if m == 1 { return 0; }
    let mut r = 1u64; b %= m;
    while e > 0 { if e & 1 == 1 { r = mulmod(r, b, m); } b = mulmod(b, b, m); e >>= 1; }
    r
}

pub fn gcd(mut a: u64, mut b: u64) -> u64 { while b != 0 { let t = a % b; a = b; b = t; } a }

/// modular inverse via i128 extended Euclid
pub fn invmod(a: u64, m: u64) -> Option<u64> {
    if m == 0 { return None; }
    let (mut r0, mut r1) = (m as i128, (a % m) as i128);
    let (mut t0, mut t1) = (0i128, 1i128);
    while r1 != 0 {
        let q = r0 / r1;
        let t = r0 - q * r1; r0 = r1; r1 = t;
        let t = t0 - q * t1; t0 = t1; t1 = t;
    }
    if r0 != 1 { return None; }
    Some(t0.rem_euclid(m as i128) as u64)
}

/// Deterministic Miller-Rabin, exact for all u64 (first 12 prime bases).
pub fn is_prime(n: u64) -> bool {
    if n < 2 { return false; }
    for p in [2u64, 3, 5, 7, 11, 13, 17, 19, 23, 29, 31, 37] {
        if n % p == 0 { return n == p; }
    }
    let mut d = n - 1; let mut r = 0;
    while d % 2 == 0 { d /= 2; r += 1; }
    'outer: for a in [2u64, 3, 5, 7, 11, 13, 17, 19, 23, 29, 31, 37] {
        let mut x = powmod(a, d, n);
        if x == 1 || x == n - 1 { continue; }
        for _ in 0..r - 1 { x = mulmod(x, x, n); if x == n - 1 { continue 'outer; } }
        return false;
    }
    true
}

/// primes p of exactly `bits` bits with p ≡ 1 (mod factor), descending from the top; up to `count`.
pub fn primes_desc(factor: u64, bits: u32, count: usize) -> Vec<u64> {
    let mut out = vec![];
    if bits < 2 || bits > 62 { return out; }
    let hi = (1u64 << bits) - 1; let lo = 1u64 << (bits - 1);
    let mut v = hi / factor * factor + 1;
    if v > hi { if v < factor { return out; } v -= factor; }
    while out.len() < count && v >= lo && v > 1 {
        if is_prime(v) { out.push(v); }
        if v < factor { break; }
        v -= factor;
    }
    out
}

/// primes ascending from the bottom of the bit range
pub fn primes_asc(factor: u64, bits: u32, count: usize) -> Vec<u64> {
    let mut out = vec![];
    if bits < 2 || bits > 62 { return out; }
    let hi = (1u64 << bits) - 1; let lo = 1u64 << (bits - 1);
    let mut v = (lo / factor) * factor + 1;
    while v < lo { v += factor; }
    while out.len() < count && v <= hi {
        if is_prime(v) { out.push(v); }
        v += factor;
    }
    out
}

/// all primitive `order`-th roots exist iff order | p-1. Returns the minimal one (p prime).
pub fn minimal_primitive_root(order: u64, p: u64) -> Option<u64> {
    if order == 0 || (p - 1) % order != 0 { return None; }
    // find any primitive order-th root deterministically: g^((p-1)/order) for g=2,3,.. ; order is power of two
    let cof = (p - 1) / order;
    let mut root = None;
    for g in 2..p.min(10_000) {
        let r = powmod(g, cof, p);
        if order == 1 { root = Some(1); break; }
        if powmod(r, order / 2, p) == p - 1 { root = Some(r); break; }
    }
    if order == 1 { return Some(1); }
    if order == 2 { return Some(p - 1); }
    let r = root?;
    // minimal over all odd powers
    let r2 = mulmod(r, r, p);
    let mut cur = r; let mut best = r;
    for _ in 0..order / 2 { if cur < best { best = cur; } cur = mulmod(cur, r2, p); }
    Some(best)
}

pub fn bitrev(x: usize, bits: u32) -> usize { if bits == 0 { 0 } else { x.reverse_bits() >> (usize::BITS - bits) } }

/// naive negacyclic product modulo (X^n+1, m)
pub fn negacyclic_mul(a: &[u64], b: &[u64], m: u64) -> Vec<u64> {
    let n = a.len();
    assert_eq!(b.len(), n);
    let mut r = vec![0u64; n];
    for i in 0..n {
        if a[i] % m == 0 { continue; }
        for j in 0..n {
            let p = mulmod(a[i] % m, b[j] % m, m);
            let k = i + j;
            if k < n { r[k] = addmod(r[k], p, m); } else { r[k - n] = submod(r[k - n], p, m); }
        }
    }
    r
}

/// Horner evaluation of p at x mod m
pub fn eval_poly(p: &[u64], x: u64, m: u64) -> u64 {
    let mut acc = 0u64;
    for &c in p.iter().rev() { acc = addmod(mulmod(acc, x, m), c % m, m); }
    acc
}

/// Galois automorphism X -> X^g on a coefficient vector modulo (X^n+1, m); g odd.
pub fn galois_coeff(p: &[u64], g: u64, m: u64) -> Vec<u64> {
    let n = p.len() as u64;
    let mut r = vec![0u64; p.len()];
    for i in 0..p.len() {
        let e = (i as u64 * g) % (2 * n);
        if e < n { r[e as usize] = addmod(r[e as usize], p[i] % m, m); }
        else { r[(e - n) as usize] = submod(r[(e - n) as usize], p[i] % m, m); }
    }
    r
}

/// X^k multiplication (negacyclic shift) of coefficient vector mod m
pub fn negacyclic_shift(p: &[u64], k: usize, m: u64) -> Vec<u64> {
    let n = p.len();
    let mut r = vec![0u64; n];
    for i in 0..n {
        let e = (i + k) % (2 * n);
        if e < n { r[e] = p[i] % m; } else { r[e - n] = negmod(p[i], m); }
    }
    r
}

pub fn self_test() -> Result<(), String> {
    if !is_prime(0xffffffff00000001) || is_prime(0xffffffff00000001 - 2) { return Err("is_prime goldilocks".into()); }
    if !is_prime(2305843009213693951) { return Err("is_prime M61".into()); }
    let known = [(97u64, true), (91, false), (561, false), (1_000_000_007, true), (3215031751, false), (3825123056546413051, false)];
    for (n, e) in known { if is_prime(n) != e { return Err(format!("is_prime {n}")); } }
    if invmod(5, 19) != Some(4) || invmod(2, 4).is_some() { return Err("invmod".into()); }
    if minimal_primitive_root(8, 1234565441) != Some(249725733) { return Err("min root".into()); }
    if minimal_primitive_root(4, 29) != Some(12) { return Err("min root 29".into()); }
    // (X+1)^2 mod X^2+1 = 2X
    if negacyclic_mul(&[1, 1], &[1, 1], 17) != vec![0, 2] { return Err("negacyclic".into()); }
    Ok(())
}
