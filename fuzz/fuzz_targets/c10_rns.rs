#![no_main]
//! coverage-guided search for property C10, sub-check `rns_routines`: the bytes are decoded by the sub-check's hand-written decoder (same mapping functions as its proptest strategy)
//! and the decoded case is judged by the same oracle as in `./check C10`.
use libfuzzer_sys::fuzz_target;
fuzz_target!(|data: &[u8]| { hv::fuzz::run("C10", "rns_routines", data); });
