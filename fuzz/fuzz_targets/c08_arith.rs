#![no_main]
//! coverage-guided search for property C08, sub-check `modular_primitives`: the bytes are decoded by the sub-check's hand-written decoder (same mapping functions as its proptest strategy)
//! and the decoded case is judged by the same oracle as in `./check C08`.
use libfuzzer_sys::fuzz_target;
fuzz_target!(|data: &[u8]| { hv::fuzz::run("C08", "modular_primitives", data); });
